(* ===== Tok.v (model) ===== *)
From Coq Require Import List NArith Bool Arith.
Import ListNotations.
Open Scope N_scope.

Inductive kind := KContext | KOperator | KValue | KName | KPython.
Record token := { ttext : list N; tkind : option kind; tstart : option nat; tend : option nat }.
Definition fresh : token := {| ttext := []; tkind := None; tstart := None; tend := None |}.
Definition fresh_k (k : kind) (i : nat) : token := {| ttext := []; tkind := Some k; tstart := Some i; tend := Some i |}.
Definition truthy (t : token) : bool := match ttext t with [] => false | _ => true end.
Definition update (t : token) (c : N) (i : nat) (k : option kind) : token :=
  {| ttext := ttext t ++ [c];
     tkind := match k with Some _ => k | None => tkind t end;
     tstart := match tstart t with None => Some i | s => s end;
     tend := Some i |}.

Definition kind_eqb (a b : kind) : bool :=
  match a, b with KContext, KContext | KOperator, KOperator | KValue, KValue | KName, KName | KPython, KPython => true | _, _ => false end.
Definition kind_is (t : token) (k : kind) : bool := match tkind t with Some k' => kind_eqb k k' | None => false end.

(* code points *)
Definition cBS := 92. Definition cPCT := 37. Definition cLB := 123. Definition cRB := 125. Definition cBT := 96.
Definition cLP := 40. Definition cRP := 41. Definition cLS := 91. Definition cRS := 93. Definition cDQ := 34. Definition cSQ := 39.

Record cls := { is_word : bool; is_num : bool; is_space : bool }.
Inductive terr := EUnterminated | EUnexpectedQuote | EUnexpectedKind.

Record tstate := { qc : list N; take : nat; cur : token; out : list token }.   (* out reversed *)
Definition init : tstate := {| qc := []; take := 0; cur := fresh; out := [] |}.

Definition yield_cur (s : tstate) : tstate :=   (* if token: yield token; token = fresh *)
  if truthy (cur s) then {| qc := qc s; take := take s; cur := fresh; out := cur s :: out s |} else s.
Definition set_cur (s : tstate) (t : token) := {| qc := qc s; take := take s; cur := t; out := out s |}.
Definition set_qc (s : tstate) (q : list N) := {| qc := q; take := take s; cur := cur s; out := out s |}.
Definition set_take (s : tstate) (n : nat) := {| qc := qc s; take := n; cur := cur s; out := out s |}.
Definition emit (s : tstate) (t : token) := {| qc := qc s; take := take s; cur := cur s; out := t :: out s |}.

Definition step (classify : N -> cls) (s : tstate) (i : nat) (c : N) : tstate + terr :=
  match take s with
  | S n => inl (set_take (set_cur s (update (cur s) c i None)) n)
  | O =>
    match qc s with
    | q :: qrest =>
        if c =? cBS then inl (set_take (set_cur s (update (cur s) c i None)) 1)
        else if ((q =? cRB) || (q =? cBT) || (q =? cPCT)) && (c =? q) then
          let s1 := set_qc s qrest in
          if truthy (cur s) then
            match qrest with
            | _ :: _ => inl (set_cur s1 (update (cur s) c i None))
            | [] => inl {| qc := []; take := 0; cur := fresh; out := cur s :: out s |}
            end
          else match qrest with
               | _ :: _ => inl s1
               | [] => inl (set_cur s1 fresh)       (* an empty quoted region leaves nothing behind *)
               end
        else if c =? q then inl (set_qc (set_cur s (update (cur s) c i None)) qrest)
        else
          let push := if ((c =? cBT) || (c =? cLP) || (c =? cLS) || (c =? cDQ) || (c =? cSQ)) && ((q =? cRB) || (q =? cRP) || (q =? cRS))
                      then [if c =? cLP then cRP else if c =? cLS then cRS else c]
                      else if (c =? cLB) && (q =? cRB) then [cRB]      (* a brace directly inside a brace-quoted fragment nests *)
                      else [] in
          inl (set_qc (set_cur s (update (cur s) c i None)) (push ++ qc s))
    | [] =>
        if c =? cPCT then let s1 := yield_cur s in inl (set_qc (set_cur s1 (fresh_k KOperator i)) [cPCT])
        else if c =? cLB then let s1 := yield_cur s in inl (set_qc (set_cur s1 (fresh_k KPython i)) [cRB])
        else if c =? cBT then let s1 := yield_cur s in inl (set_qc (set_cur s1 (fresh_k KName i)) [cBT])
        else if (c =? cLP) || (c =? cLS) then
          if kind_is (cur s) KName || kind_is (cur s) KPython then
            inl (set_qc (set_cur s (update (cur s) c i (Some KPython))) [if c =? cLP then cRP else cRS])
          else let s1 := yield_cur s in inl (emit s1 (update fresh c i (Some KContext)))
        else if (c =? cRP) || (c =? cRS) then
          let s1 := yield_cur s in inl (emit s1 (update fresh c i (Some KContext)))
        else if is_space (classify c) then
          if truthy (cur s) && negb (kind_is (cur s) KOperator) then inl (yield_cur s) else inl s
        else if (c =? cDQ) || (c =? cSQ) then
          let s1 := if truthy (cur s) && kind_is (cur s) KOperator then yield_cur s else s in
          if negb (truthy (cur s1)) then inl (set_qc (set_cur s1 (update (cur s1) c i (Some KValue))) [c])
          else inr EUnexpectedQuote
        else if is_word (classify c) then
          let s1 := if truthy (cur s) && (kind_is (cur s) KOperator || kind_is (cur s) KPython) then yield_cur s else s in
          match tkind (cur s1) with
          | Some KOperator | Some KPython | Some KContext => inr EUnexpectedKind
          | k0 =>
              let k := if is_num (classify c) && (match k0 with None | Some KValue => true | _ => false end) then KValue else KName in
              inl (set_cur s1 (update (cur s1) c i (Some k)))
          end
        else
          let s1 := if truthy (cur s) && negb (kind_is (cur s) KOperator) then yield_cur s else s in
          inl (set_cur s1 (update (cur s1) c i (Some KOperator)))
    end
  end.

Fixpoint run (classify : N -> cls) (s : tstate) (i : nat) (l : list N) : tstate + terr :=
  match l with
  | [] => inl s
  | c :: r => match step classify s i c with inl s' => run classify s' (S i) r | inr e => inr e end
  end.

Definition tokenize (classify : N -> cls) (l : list N) : list token + terr :=
  match run classify init 0 l with
  | inr e => inr e
  | inl s => match qc s with
             | _ :: _ => inr EUnterminated
             | [] => inl (rev (if truthy (cur s) then cur s :: out s else out s))
             end
  end.
(* tokens already yielded when the lexer fails matter, because the pipeline is lazy *)
Fixpoint run_p (classify : N -> cls) (s : tstate) (i : nat) (l : list N) : tstate * option terr :=
  match l with
  | [] => (s, None)
  | c :: r => match step classify s i c with inl s' => run_p classify s' (S i) r | inr e => (s, Some e) end
  end.
Definition tokenize_partial (classify : N -> cls) (l : list N) : list token * option terr :=
  match run_p classify init 0 l with
  | (s, Some e) => (rev (out s), Some e)
  | (s, None) => match qc s with
                 | _ :: _ => (rev (out s), Some EUnterminated)
                 | [] => (rev (if truthy (cur s) then cur s :: out s else out s), None)
                 end
  end.
