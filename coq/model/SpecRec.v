(* ===== SpecRec.v : what a build records in its ModelSpec (structure rows with column names, encoder_state) (C04) =====
   No proofs in this file. *)
From Coq Require Import List NArith ZArith QArith Qcanon Bool Arith.
Import ListNotations.
Require Import Mat Mat2.
Open Scope nat_scope.

(* ---------- what a build records (ModelSpec.structure, encoder_state) ---------- *)
Definition lv_of (c : list (option str)) (dl : option (list str)) (drop : list nat) : list str :=
  match dl with Some l => l | None => levels_of (keep_rows c drop 0) end.
Definition enc_of (evs : list (str * ev)) (drop : list nat) : list (str * ekind) :=
  map (fun p => (fst p, match snd p with EvCat c dl => KCat (lv_of c dl drop) | _ => KNum end)) evs.
Definition term_dicts (evs : list (str * ev)) (drop : list nat) (nkeep : nat) (per_term : list (list sterm)) : list (list (str * column)) :=
  map (fun sts => fold_left (fun dct st => dict_update dct (cols_of evs drop nkeep st)) sts []) per_term.
Definition spec_of (c : cfg) (terms : list term) (evs : list (str * ev)) (nrows : nat) : spec :=
  let drop := drop_set c evs in
  let nkeep := (nrows - length drop)%nat in
  let per_term := get_scoped_terms (full_rank c) evs terms in
  {| sp_terms := terms;
     sp_struct := combine per_term (map (map fst) (term_dicts evs drop nkeep per_term));
     sp_enc := enc_of evs drop;
     sp_cfg := c |}.

