(* ===== Parser2.v : operator table and shunting-yard machine ===== *)
From Coq Require Import List NArith ZArith Bool Arith.
Import ListNotations.
Require Import Tok Parser.
Open Scope N_scope.

(* ---------- operator table ---------- *)
Inductive assoc := AL | AR | AN.
Inductive fixity := Prefix | Infix | Postfix.
Inductive ctxrule := CAlways | CEmpty | CSquare | CTildeBar.
Inductive sem := STilde2 | STilde1 | SMulti | SBar | SPlus | SMinus | SUPlus | SUMinus | SStar | SSlash | SIn | SColon | SPow | SDot.
Record op := { osym : str; oarity : nat; oprec : Z; oassoc : assoc; ofix : fixity; octx : ctxrule; ostruct : bool; odis : bool; osem : sem }.
Record flags := { f_two : bool; f_parts : bool; f_stage : bool }.

Definition mk s a p asc fx cx st ds sm := {| osym := s; oarity := a; oprec := p; oassoc := asc; ofix := fx; octx := cx; ostruct := st; odis := ds; osem := sm |}.
Definition c x := N.of_nat x.
(* per symbol, already in the order sorted(key=(precedence, arity), reverse=True) (stable) *)
Definition table (f : flags) : list op := [
  mk [cTILDE] 2 (-100)%Z AN Infix CEmpty true (negb (f_two f)) STilde2;
  mk [cTILDE] 2 (-100)%Z AN Infix CSquare true (negb (f_stage f)) SMulti;
  mk [cTILDE] 1 (-100)%Z AN Prefix CEmpty true false STilde1;
  mk [cBAR] 2 (-50)%Z AN Infix CTildeBar true (negb (f_parts f)) SBar;
  mk [cPLUS] 2 100%Z AL Infix CAlways false false SPlus;
  mk [cPLUS] 1 100%Z AR Prefix CAlways false false SUPlus;
  mk [cMINUS] 2 100%Z AL Infix CAlways false false SMinus;
  mk [cMINUS] 1 100%Z AR Prefix CAlways false false SUMinus;
  mk [42] 2 200%Z AL Infix CAlways false false SStar;
  mk [47] 2 200%Z AL Infix CAlways false false SSlash;
  mk [105;110] 2 200%Z AL Infix CAlways false false SIn;
  mk [58] 2 300%Z AL Infix CAlways false false SColon;
  mk [42;42] 2 500%Z AR Infix CAlways false false SPow;
  mk [94] 2 500%Z AR Infix CAlways false false SPow;
  mk [cDOT] 0 1000%Z AN Postfix CAlways false false SDot ].
Definition candidates (f : flags) (s : str) := filter (fun o => leqb (osym o) s) (table f).
Definition in_table (f : flags) (s : str) := match candidates f s with [] => false | _ => true end.

Fixpoint chars (s : str) : list str := map (fun x => [x]) s.
Definition resolve (fixed : bool) (f : flags) (s : str) : list str :=
  if in_table f s then [s] else
  let s' := collapse fixed s (S (length s)) in
  if in_table f s' then [s'] else chars s'.

(* ---------- machine ---------- *)
Inductive ast := ALeaf (t : tk) | ANode (o : op) (args : list ast).
Inductive sitem := SOp (o : op) (i : nat) | SCtx (t : str) (i : nat).
Definition sidx it := match it with SOp _ i | SCtx _ i => i end.
Inductive perr := ESyntax | EInternal (cls : nat) | EPySyntax.
(* internal classes: 1 AttributeError 2 StopIteration 3 TypeError 4 ValueError 5 other *)
Definition res (A : Type) := (A + perr)%type.

Definition operate (it : sitem) (out : list ast) : res (list ast) :=
  match it with
  | SCtx _ _ => inr (EInternal 1)
  | SOp o i =>
      let bounds := match ofix o with
                    | Infix => if (1 <=? i)%nat then Some ((i - 1)%nat, (i + 1)%nat) else None
                    | Prefix => Some (i, (i + oarity o)%nat)
                    | Postfix => if (oarity o <=? i)%nat then Some ((i - oarity o)%nat, i) else None
                    end in
      match bounds with
      | Some (lo, hi) => if (hi <=? length out)%nat
                         then inl (firstn lo out ++ ANode o (firstn (hi - lo) (skipn lo out)) :: skipn hi out)
                         else inr ESyntax
      | None => inr ESyntax
      end
  end.

Definition popped (top : op) (o : op) : bool :=
  (oprec o <? oprec top)%Z || ((oprec top =? oprec o)%Z && match oassoc o with AL => true | _ => false end).

Fixpoint pop_while (o : op) (stk : list sitem) (out : list ast) : res (list ast * list sitem) :=
  match stk with
  | SOp top i :: stk' => if popped top o then
                           match operate (SOp top i) out with inl out' => pop_while o stk' out' | inr e => inr e end
                         else inl (out, stk)
  | _ => inl (out, stk)
  end.

(* accepts_context: stack is top-first; python's context list is bottom-first *)
Definition sym_in_tildebar (s : str) : bool := leqb s [cTILDE] || leqb s [cBAR] || leqb s [cTILDE; cBAR] || leqb s [].
Definition accepts (o : op) (stk : list sitem) : bool :=
  let filtered := filter (fun it => match it with SCtx _ _ => true | SOp p _ => (oprec p <=? oprec o)%Z end) stk in
  match octx o with
  | CAlways => true
  | CEmpty => match filtered with [] => true | _ => false end
  | CSquare => match filtered with SCtx t _ :: _ => leqb t [cLS] | _ => false end
  | CTildeBar => forallb (fun it => match it with SOp p _ => sym_in_tildebar (osym p) | SCtx _ _ => false end) filtered
  end.

Definition topidx (stk : list sitem) := match stk with it :: _ => sidx it | [] => O end.

Fixpoint try_ops (cands : list op) (out : list ast) (stk : list sitem) : res (list ast * list sitem) :=
  match cands with
  | [] => inr ESyntax
  | o :: rest =>
      if negb (accepts o stk) then try_ops rest out stk
      else if odis o then try_ops rest out stk
      else match pop_while o stk out with
           | inr e => inr e
           | inl (out', stk') =>
               let mpa := (length out' - topidx stk')%nat in
               let ok := (oarity o =? 0)%nat
                         || match ofix o with Prefix => true | Infix => (mpa =? 1)%nat | Postfix => (oarity o <=? mpa)%nat end in
               if ok then inl (out', SOp o (length out') :: stk') else try_ops rest out' stk'
           end
  end.

Fixpoint do_syms (f : flags) (syms : list str) (out : list ast) (stk : list sitem) : res (list ast * list sitem) :=
  match syms with
  | [] => inl (out, stk)
  | s :: rest => match candidates f s with
                 | [] => inr ESyntax
                 | cs => match try_ops cs out stk with inl (o', s') => do_syms f rest o' s' | inr e => inr e end
                 end
  end.

(* closing bracket: operators are applied down to the nearest context token; it must be the matching opener
   and something must have been produced since it was pushed *)
Fixpoint close_ctx (opener : str) (stk : list sitem) (out : list ast) : res (list ast * list sitem) :=
  match stk with
  | [] => inr ESyntax
  | SCtx t i :: stk' => if leqb t opener then (if (i =? length out)%nat then inr ESyntax else inl (out, stk')) else inr ESyntax
  | it :: stk' => match operate it out with inl out' => close_ctx opener stk' out' | inr e => inr e end
  end.

Definition mstep (fixed : bool) (f : flags) (t : tk) (st : list ast * list sitem) : res (list ast * list sitem) :=
  let '(out, stk) := st in
  match kd t with
  | KContext => if leqb (tx t) [cLP] || leqb (tx t) [cLS] then inl (out, SCtx (tx t) (length out) :: stk)
                else match opener_of (tx t) with Some o => close_ctx o stk out | None => inr ESyntax end
  | KOperator => do_syms f (resolve fixed f (tx t)) out stk
  | _ => inl (out ++ [ALeaf t], stk)
  end.

Fixpoint mrun (fixed : bool) (f : flags) (ts : list tk) (st : list ast * list sitem) : res (list ast * list sitem) :=
  match ts with [] => inl st | t :: r => match mstep fixed f t st with inl st' => mrun fixed f r st' | inr e => inr e end end.

Fixpoint finish (stk : list sitem) (out : list ast) : res (list ast) :=
  match stk with
  | [] => inl out
  | SCtx _ _ :: _ => inr ESyntax
  | it :: stk' => match operate it out with inl out' => finish stk' out' | inr e => inr e end
  end.

Definition to_ast (fixed : bool) (f : flags) (ts : list tk) : res (option ast) :=
  match mrun fixed f ts ([], []) with
  | inr e => inr e
  | inl (out, stk) => match finish stk out with
                      | inr e => inr e
                      | inl [] => inl None
                      | inl [a] => inl (Some a)
                      | inl _ => inr ESyntax
                      end
  end.
