(* ===== Struct.v : model of formulaic.utils.structured.Structured (C19, C07, C01) =====
   A Structured instance is [Str fields] where fields is its insertion-ordered `_structure` dict;
   values are leaves, tuples (items: leaves, tuples, Structured) or nested Structured instances.
   No proofs in this file. *)
From Coq Require Import List Arith Bool NArith.
Import ListNotations.

Definition key := list N.
Fixpoint keqb (a b : key) : bool :=
  match a, b with [] , [] => true | x :: a', y :: b' => N.eqb x y && keqb a' b' | _, _ => false end.
Definition kroot : key := [114; 111; 111; 116]%N.   (* "root" *)

Inductive node (A : Type) :=
| Leaf (a : A)
| Tup (items : list (node A))
| Str (fields : list (key * node A)).
Arguments Leaf {A}. Arguments Tup {A}. Arguments Str {A}.

(* ---------- python dict helpers (association lists in insertion order, keys unique) ---------- *)
Section Dict.
Context {V : Type}.
Fixpoint dget (k : key) (d : list (key * V)) : option V :=
  match d with [] => None | (k', v) :: r => if keqb k k' then Some v else dget k r end.
Definition dmem (k : key) (d : list (key * V)) : bool := match dget k d with Some _ => true | None => false end.
Fixpoint dset (k : key) (v : V) (d : list (key * V)) : list (key * V) :=     (* d[k] = v : keeps position, else appends *)
  match d with [] => [(k, v)] | (k', v') :: r => if keqb k k' then (k', v) :: r else (k', v') :: dset k v r end.
Fixpoint ddel (k : key) (d : list (key * V)) : list (key * V) :=
  match d with [] => [] | (k', v') :: r => if keqb k k' then r else (k', v') :: ddel k r end.
Definition dupdate (d e : list (key * V)) : list (key * V) := fold_left (fun acc kv => dset (fst kv) (snd kv) acc) e d.   (* {**d, **e} *)
Definition dkeys (d : list (key * V)) : list key := map fst d.
(* Structured.__init__(root, structure...): the root entry is re-inserted last *)
Definition root_last (d : list (key * V)) : list (key * V) :=
  match dget kroot d with Some v => ddel kroot d ++ [(kroot, v)] | None => d end.
End Dict.

(* ---------- _map (recurse=True) ---------- *)
Fixpoint smap {A B} (f : A -> B) (n : node A) : node B :=
  match n with
  | Leaf a => Leaf (f a)
  | Tup items => Tup (map (smap f) items)
  | Str fields => Str (map (fun kv => (fst kv, smap f (snd kv))) fields)
  end.
(* the sequence of calls made by _map is the leaf sequence below; Structured(dict) then moves root last,
   which is the identity because the source structure already has root last (invariant [wf]) *)
Fixpoint leaves {A} (n : node A) : list A :=
  match n with
  | Leaf a => [a]
  | Tup items => flat_map leaves items
  | Str fields => flat_map (fun kv => leaves (snd kv)) fields
  end.
(* _flatten, as coded after the fix: Structured -> recurse, tuple -> recurse over items, else yield *)
Fixpoint sflatten {A} (n : node A) : list A :=
  match n with
  | Leaf a => [a]
  | Tup items => flat_map sflatten items
  | Str fields => flat_map (fun kv => sflatten (snd kv)) fields
  end.

Inductive shape := SL | ST (l : list shape) | SS (l : list (key * shape)).
Fixpoint shape_of {A} (n : node A) : shape :=
  match n with
  | Leaf _ => SL
  | Tup items => ST (map shape_of items)
  | Str fields => SS (map (fun kv => (fst kv, shape_of (snd kv))) fields)
  end.

(* ---------- _simplify(recurse=True, unwrap=True), not in place ---------- *)
Definition is_tup {A} (n : node A) : bool := match n with Tup _ => true | _ => false end.
Definition is_str {A} (n : node A) : bool := match n with Str _ => true | _ => false end.
Fixpoint simplify {A} (n : node A) : node A :=
  match n with
  | Leaf a => Leaf a
  | Tup items => Tup (map simplify items)
  | Str fields =>
      match fields with
      | [(k, v)] =>
          if keqb k kroot && negb (is_tup v) then simplify v          (* the unwrapping loop *)
          else Str [(k, simplify v)]
      | _ => Str (map (fun kv => (fst kv, simplify (snd kv))) fields)
      end
  end.
(* _simplify(unwrap=False): only Structured roots are unwrapped at the top; children use unwrap=True *)
Fixpoint unwrap_str {A} (n : node A) : node A :=
  match n with
  | Str [(k, v)] => if keqb k kroot && is_str v then unwrap_str v else n
  | _ => n
  end.
Definition simplify_nounwrap {A} (n : node A) : node A :=
  match unwrap_str n with
  | Str fields => Str (map (fun kv => (fst kv, simplify (snd kv))) fields)
  | x => x
  end.

(* ---------- _update(structure...) ---------- *)
Definition supdate {A} (n : node A) (upd : list (key * node A)) : node A :=
  match n with Str fields => Str (root_last (dupdate fields upd)) | _ => n end.

(* ---------- _merge(objects..., merger) ---------- *)
Inductive merr := MNotAligned | MFuel.
Section Merge.
Context {A : Type}.
Variable merger : list A -> A.
Fixpoint all_leaves (l : list (node A)) : option (list A) :=
  match l with [] => Some [] | Leaf a :: r => match all_leaves r with Some x => Some (a :: x) | None => None end | _ => None end.
Fixpoint all_tups (l : list (node A)) : option (list (node A)) :=
  match l with [] => Some [] | Tup i :: r => match all_tups r with Some x => Some (i ++ x) | None => None end | _ => None end.
(* values_to_merge: defaultdict(list) in first-appearance key order *)
Fixpoint dappend (k : key) (v : node A) (d : list (key * list (node A))) : list (key * list (node A)) :=
  match d with [] => [(k, [v])] | (k', vs) :: r => if keqb k k' then (k', vs ++ [v]) :: r else (k', vs) :: dappend k v r end.
Definition collect (objs : list (node A)) : list (key * list (node A)) :=
  fold_left (fun acc o => match o with
                          | Str fields => fold_left (fun acc' kv => dappend (fst kv) (snd kv) acc') fields acc
                          | other => dappend kroot other acc end) objs [].
Fixpoint smerge (fuel : nat) (top : bool) (objs : list (node A)) : node A + merr :=
  match fuel with O => inr MFuel | S f =>
  match objs with
  | [] => inl (Str [])
  | _ =>
    match all_tups objs with
    | Some items => if top then inl (Str [(kroot, Tup items)]) else inl (Tup items)
    | None =>
      if existsb is_tup objs then inr MNotAligned else
      match all_leaves objs with
      | Some xs => inl (Leaf (merger xs))
      | None =>
          (fix go (l : list (key * list (node A))) (acc : list (key * node A)) : node A + merr :=
             match l with
             | [] => inl (Str (root_last (rev acc)))
             | (k, [v]) :: r => go r ((k, v) :: acc)
             | (k, vs) :: r => match smerge f false vs with inl m => go r ((k, m) :: acc) | inr e => inr e end
             end) (collect objs) []
      end
    end
  end end.
End Merge.
Fixpoint nsize {A} (n : node A) : nat :=
  match n with Leaf _ => 1 | Tup items => S (fold_right (fun x s => nsize x + s) 0 items)
             | Str fields => S (fold_right (fun kv s => nsize (snd kv) + s) 0 fields) end.

(* ---------- __iter__, __len__, __contains__, __getitem__ (string key) ---------- *)
Definition has_root {A} (n : node A) := match n with Str f => dmem kroot f | _ => false end.
Definition has_keys {A} (n : node A) := match n with Str [(k, _)] => negb (keqb k kroot) | _ => true end.

(* well-formed: every Structured has its root entry (if any) last, keys unique *)
Fixpoint uniq (l : list key) : bool := match l with [] => true | k :: r => negb (existsb (keqb k) r) && uniq r end.
Definition root_is_last {V} (d : list (key * V)) : bool :=
  match rev d with [] => true | _ :: r => negb (existsb (fun kv => keqb (fst kv) kroot) r) end.
Fixpoint wf {A} (n : node A) : bool :=
  match n with
  | Leaf _ => true
  | Tup items => forallb wf items
  | Str fields => uniq (dkeys fields) && root_is_last fields && forallb (fun kv => wf (snd kv)) fields
  end.
