(* ===== FormulaSeq.v : SimpleFormula as a mutable sequence of terms with an ordering (C19, C01) =====
   No proofs in this file. *)
From Coq Require Import List Arith Bool NArith ZArith.
Import ListNotations.
Require Import Struct.

Record sfactor := { fexpr : key; flit : bool }.
Definition sterm := list sfactor.
Definition degree (t : sterm) : nat := length (filter (fun f => negb (flit f)) t).

Inductive ordering := ONone | ODegree | OSort.

(* ---------- sorted(terms, key=degree): a stable sort; modelled as stable insertion sort ---------- *)
Fixpoint ins_deg (t : sterm) (l : list sterm) : list sterm :=
  match l with
  | [] => [t]
  | u :: r => if (degree t <=? degree u)%nat then t :: l else u :: ins_deg t r
  end.
(* stable: elements are inserted from the right, each before the first element that is not smaller *)
Definition sort_deg (l : list sterm) : list sterm := fold_right ins_deg [] l.

(* ---------- OrderingMethod.SORT : factors sorted inside each term, then terms sorted with Term.__lt__ ---------- *)
Fixpoint scmp (a b : key) : comparison :=
  match a, b with
  | [], [] => Eq | [], _ => Lt | _, [] => Gt
  | x :: a', y :: b' => match N.compare x y with Eq => scmp a' b' | c => c end
  end.
Definition flt (a b : sfactor) : bool := match scmp (fexpr a) (fexpr b) with Lt => true | _ => false end.
Fixpoint ins_f (f : sfactor) (l : list sfactor) : list sfactor :=
  match l with [] => [f] | g :: r => if negb (flt g f) then f :: l else g :: ins_f f r end.
Definition sort_f (t : sterm) : sterm := fold_right ins_f [] t.
(* python list comparison of lists of Factor: first position where not equal (Factor.__eq__ on expr) *)
Fixpoint flist_lt (a b : list sfactor) : bool :=
  match a, b with
  | [], [] => false | [], _ => true | _, [] => false
  | x :: a', y :: b' => if keqb (fexpr x) (fexpr y) then flist_lt a' b' else flt x y
  end.
Definition term_lt (a b : sterm) : bool :=
  if (degree a =? degree b)%nat then flist_lt (sort_f a) (sort_f b) else (degree a <? degree b)%nat.
Fixpoint ins_t (t : sterm) (l : list sterm) : list sterm :=
  match l with [] => [t] | u :: r => if negb (term_lt u t) then t :: l else u :: ins_t t r end.
Definition sort_terms (l : list sterm) : list sterm := fold_right ins_t [] (map sort_f l).

Definition reorder (o : ordering) (l : list sterm) : list sterm :=
  match o with ONone => l | ODegree => sort_deg l | OSort => sort_terms l end.

(* ---------- python list index semantics ---------- *)
Definition norm_insert (i : Z) (n : nat) : nat :=
  let n' := Z.of_nat n in
  let j := if (i <? 0)%Z then (i + n')%Z else i in
  if (j <? 0)%Z then O else if (n' <? j)%Z then n else Z.to_nat j.
Definition norm_index (i : Z) (n : nat) : option nat :=
  let n' := Z.of_nat n in
  let j := if (i <? 0)%Z then (i + n')%Z else i in
  if (j <? 0)%Z || (n' <=? j)%Z then None else Some (Z.to_nat j).
Definition list_insert {A} (i : nat) (x : A) (l : list A) : list A := firstn i l ++ x :: skipn i l.
Definition list_set {A} (i : nat) (x : A) (l : list A) : list A := firstn i l ++ x :: skipn (S i) l.
Definition list_del {A} (i : nat) (l : list A) : list A := firstn i l ++ skipn (S i) l.

Record formula := { ford : ordering; fterms : list sterm }.
Definition mk_formula (o : ordering) (l : list sterm) : formula := {| ford := o; fterms := reorder o l |}.

Inductive fop := FInsert (i : Z) (t : sterm) | FSet (i : Z) (t : sterm) | FDel (i : Z).
(* None = IndexError *)
Definition fstep (f : formula) (o : fop) : option formula :=
  match o with
  | FInsert i t => Some {| ford := ford f; fterms := reorder (ford f) (list_insert (norm_insert i (length (fterms f))) t (fterms f)) |}
  | FSet i t => match norm_index i (length (fterms f)) with
                | Some j => Some {| ford := ford f; fterms := reorder (ford f) (list_set j t (fterms f)) |}
                | None => None end
  | FDel i => match norm_index i (length (fterms f)) with
              | Some j => Some {| ford := ford f; fterms := list_del j (fterms f) |}
              | None => None end
  end.
(* a history: failed operations (IndexError) leave the formula unchanged *)
Definition fstep' (f : formula) (o : fop) : formula := match fstep f o with Some f' => f' | None => f end.
Definition frun (f : formula) (ops : list fop) : formula := fold_left fstep' ops f.

(* the ordering invariant *)
Fixpoint deg_sorted (l : list sterm) : bool :=
  match l with [] => true | t :: r => match r with [] => true | u :: _ => (degree t <=? degree u)%nat && deg_sorted r end end.
Fixpoint lt_sorted (l : list sterm) : bool :=
  match l with [] => true | t :: r => match r with [] => true | u :: _ => negb (term_lt u t) && lt_sorted r end end.
Definition ordered (f : formula) : bool :=
  match ford f with ONone => true | ODegree => deg_sorted (fterms f) | OSort => lt_sorted (fterms f) end.
