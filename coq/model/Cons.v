(* ===== Cons.v : the linear-constraint compiler (C16): tokenizer + shunting-yard with ConstraintOperatorResolver's table +
   the ScaledFactor set algebra as association lists + get_matrix.  No proofs in this file. *)
From Coq Require Import List NArith ZArith QArith Qcanon Bool Arith.
Import ListNotations.
Require Import Tok.
Open Scope N_scope.

Definition str := list N.
Fixpoint leqb (a b : str) : bool :=
  match a, b with [], [] => true | x :: a', y :: b' => (x =? y) && leqb a' b' | _, _ => false end.
Record tk := { tx : str; kd : kind }.
Definition of_token (t : token) : tk := {| tx := ttext t; kd := match tkind t with Some k => k | None => KName end |}.

Inductive assoc := AL | AR | AN.
Inductive fixity := Prefix | Infix.
Inductive csem := SComma | SEq | SAdd | SSub | SPos | SNeg | SMul | SDiv.
Record op := { osym : str; oarity : nat; oprec : Z; oassoc : assoc; ofix : fixity; ocomma : bool; ostruct : bool; osem : csem }.
Definition mk s a p asc fx cm st sm := {| osym := s; oarity := a; oprec := p; oassoc := asc; ofix := fx; ocomma := cm; ostruct := st; osem := sm |}.
(* ConstraintOperatorResolver.operators, per symbol sorted by (precedence, arity) descending *)
Definition table : list op := [
  mk [44] 2 (-200)%Z AN Infix true true SComma;
  mk [61] 2 (-100)%Z AN Infix false false SEq;
  mk [43] 2 100%Z AL Infix false false SAdd;
  mk [43] 1 100%Z AR Prefix false false SPos;
  mk [45] 2 100%Z AL Infix false false SSub;
  mk [45] 1 100%Z AR Prefix false false SNeg;
  mk [42] 2 200%Z AL Infix false false SMul;
  mk [47] 2 200%Z AL Infix false false SDiv ].
Definition candidates (s : str) := filter (fun o => leqb (osym o) s) table.

Inductive ast := ALeaf (t : tk) | ANode (o : op) (args : list ast).
Inductive sitem := SOp (o : op) (i : nat) | SCtx (t : str) (i : nat).
Definition sidx it := match it with SOp _ i | SCtx _ i => i end.
(* error classes: 0 FormulaSyntaxError 1 AttributeError 3 TypeError 4 ValueError 5 other 6 KeyError 8 ZeroDivisionError 9 RuntimeError(non-linear) *)
Definition res (A : Type) := (A + nat)%type.

Definition operate (it : sitem) (out : list ast) : res (list ast) :=
  match it with
  | SCtx _ _ => inr 1%nat
  | SOp o i =>
      let bounds := match ofix o with
                    | Infix => if (1 <=? i)%nat then Some ((i - 1)%nat, (i + 1)%nat) else None
                    | Prefix => Some (i, (i + oarity o)%nat)
                    end in
      match bounds with
      | Some (lo, hi) => if (hi <=? length out)%nat
                         then inl (firstn lo out ++ ANode o (firstn (hi - lo) (skipn lo out)) :: skipn hi out)
                         else inr 0%nat
      | None => inr 0%nat
      end
  end.
Definition popped (top : op) (o : op) : bool :=
  (oprec o <? oprec top)%Z || ((oprec top =? oprec o)%Z && match oassoc o with AL => true | _ => false end).
Fixpoint pop_while (o : op) (stk : list sitem) (out : list ast) : res (list ast * list sitem) :=
  match stk with
  | SOp top i :: stk' => if popped top o then
                           match operate (SOp top i) out with inl out' => pop_while o stk' out' | inr e => inr e end
                         else inl (out, stk)
  | _ => inl (out, stk)
  end.
Definition accepts (o : op) (stk : list sitem) : bool :=
  if ocomma o then
    forallb (fun it => match it with SOp p _ => negb (oprec p <=? oprec o)%Z || leqb (osym p) [44] | SCtx _ _ => true end) stk
  else true.
Definition topidx (stk : list sitem) := match stk with it :: _ => sidx it | [] => O end.
Fixpoint try_ops (cands : list op) (out : list ast) (stk : list sitem) : res (list ast * list sitem) :=
  match cands with
  | [] => inr 0%nat
  | o :: rest =>
      if negb (accepts o stk) then try_ops rest out stk
      else match pop_while o stk out with
           | inr e => inr e
           | inl (out', stk') =>
               let mpa := (length out' - topidx stk')%nat in
               let ok := match ofix o with Prefix => true | Infix => (mpa =? 1)%nat end in
               if ok then inl (out', SOp o (length out') :: stk') else try_ops rest out' stk'
           end
  end.
(* ConstraintOperatorResolver.resolve for a token that is not in the table: character by character; after the first character
   only prefix operators (signs) are candidates *)
Fixpoint resolve_chars (first : bool) (s : str) (st : list ast * list sitem) : res (list ast * list sitem) :=
  match s with
  | [] => inl st
  | ch :: r =>
      let cs := if first then candidates [ch] else filter (fun o => match ofix o with Prefix => true | Infix => false end) (candidates [ch]) in
      match cs with
      | [] => inr 0%nat
      | _ => match try_ops cs (fst st) (snd st) with inl st' => resolve_chars false r st' | inr e => inr e end
      end
  end.
Definition cLP := 40. Definition cRP := 41. Definition cLS := 91. Definition cRS := 93.
Definition opener_of (c : str) : option str := if leqb c [cRP] then Some [cLP] else if leqb c [cRS] then Some [cLS] else None.
Fixpoint close_ctx (opener : str) (stk : list sitem) (out : list ast) : res (list ast * list sitem) :=
  match stk with
  | [] => inr 0%nat
  | SCtx t i :: stk' => if leqb t opener then (if (i =? length out)%nat then inr 0%nat else inl (out, stk')) else inr 0%nat
  | it :: stk' => match operate it out with inl out' => close_ctx opener stk' out' | inr e => inr e end
  end.
Definition mstep (t : tk) (st : list ast * list sitem) : res (list ast * list sitem) :=
  let '(out, stk) := st in
  match kd t with
  | KContext => if leqb (tx t) [cLP] || leqb (tx t) [cLS] then inl (out, SCtx (tx t) (length out) :: stk)
                else match opener_of (tx t) with Some o => close_ctx o stk out | None => inr 0%nat end
  | KOperator => match candidates (tx t) with
                 | [] => resolve_chars true (tx t) (out, stk)      (* adjacent operators lexed as one token: "=-" in "a = -b" *)
                 | cs => try_ops cs out stk end
  | _ => inl (out ++ [ALeaf t], stk)
  end.
Fixpoint mrun (ts : list tk) (st : list ast * list sitem) : res (list ast * list sitem) :=
  match ts with [] => inl st | t :: r => match mstep t st with inl st' => mrun r st' | inr e => inr e end end.
Fixpoint finish (stk : list sitem) (out : list ast) : res (list ast) :=
  match stk with
  | [] => inl out
  | SCtx _ _ :: _ => inr 0%nat
  | it :: stk' => match operate it out with inl out' => finish stk' out' | inr e => inr e end
  end.
Definition to_ast (ts : list tk) : res (option ast) :=
  match mrun ts ([], []) with
  | inr e => inr e
  | inl (out, stk) => match finish stk out with
                      | inr e => inr e
                      | inl [] => inl None
                      | inl [a] => inl (Some a)
                      | inl _ => inr 0%nat
                      end
  end.

(* ---------- scaled-factor algebra ---------- *)
Notation sfac := (option str * Qc)%type (only parsing).        (* None = the constant 1 *)
Definition key_eqb (a b : option str) := match a, b with None, None => true | Some x, Some y => leqb x y | _, _ => false end.
Fixpoint find_k (k : option str) (l : list sfac) : option Qc :=
  match l with [] => None | (k', q) :: r => if key_eqb k k' then Some q else find_k k r end.
Definition has_k (k : option str) (l : list sfac) := match find_k k l with Some _ => true | None => false end.
Definition add_terms (a b : list sfac) : list sfac :=
  map (fun p => match find_k (fst p) b with Some q => (fst p, (snd p + q)%Qc) | None => p end) a
  ++ filter (fun p => negb (has_k (fst p) a)) b.
Definition negate (a : list sfac) : list sfac := map (fun p => (fst p, (- snd p)%Qc)) a.
Definition sub_terms (a b : list sfac) : list sfac :=
  map (fun p => match find_k (fst p) b with Some q => (fst p, (snd p - q)%Qc) | None => p end) a
  ++ negate (filter (fun p => negb (has_k (fst p) a)) b).
Definition mul_term (l r : sfac) : res sfac :=
  match fst l, fst r with
  | None, _ => inl (fst r, (snd l * snd r)%Qc)
  | _, None => inl (fst l, (snd l * snd r)%Qc)
  | _, _ => inr 9%nat
  end.
Definition div_term (l r : sfac) : res sfac :=
  match fst r with
  | None => if Qc_eq_bool (snd r) (Q2Qc 0) then inr 8%nat else inl (fst l, (snd l / snd r)%Qc)
  | _ => inr 9%nat
  end.
Definition pairwise (f : sfac -> sfac -> res sfac) (a b : list sfac) : res (list sfac) :=
  fold_left (fun acc lr => match acc with inr e => inr e | inl ts =>
                             match f (fst lr) (snd lr) with inl t => inl (add_terms ts [t]) | inr e => inr e end end)
            (flat_map (fun l => map (fun r => (l, r)) b) a) (inl []).

Inductive cval := VSet (s : list sfac) | VTup (ts : list (list sfac)).
Definition is_digit (x : N) := (48 <=? x) && (x <=? 57).
Fixpoint lit_go (s : str) (num : Z) (den : Z) (after_dot : bool) : Z * Z :=
  match s with
  | [] => (num, den)
  | x :: r => if x =? 46 then lit_go r num den true
              else let d := Z.of_N (x - 48) in lit_go r (num * 10 + d)%Z (if after_dot then (den * 10)%Z else den) after_dot
  end.
Definition lit_ok (s : str) : bool :=
  forallb (fun y => is_digit y || (y =? 46)) s && (length (filter (N.eqb 46) s) <=? 1)%nat && existsb is_digit s
  && (negb (match s with 48 :: y :: _ => is_digit y | _ => false end) || forallb (N.eqb 48) s).
Definition lit_val (s : str) : Qc := let '(n, d) := lit_go s 0%Z 1%Z false in Q2Qc (Qmake n (Z.to_pos d)).

Definition as_set (v : cval) : res (list sfac) := match v with VSet s => inl s | VTup _ => inr 4%nat end.
Definition bind {A B} (x : res A) (f : A -> res B) : res B := match x with inl a => f a | inr e => inr e end.
Notation "'do' x <- e ; k" := (bind e (fun x => k)) (at level 200, x ident, e at level 100, k at level 200).
Definition apply_op (o : op) (args : list cval) : res cval :=
  match osem o, args with
  | SComma, [l; r] => inl (VTup ((match l with VSet s => [s] | VTup t => t end) ++ (match r with VSet s => [s] | VTup t => t end)))
  | SEq, [l; r] => do a <- as_set l; do b <- as_set r; inl (VSet (add_terms a (negate b)))
  | SAdd, [l; r] => do a <- as_set l; do b <- as_set r; inl (VSet (add_terms a b))
  | SSub, [l; r] => do a <- as_set l; do b <- as_set r; inl (VSet (sub_terms a b))
  | SPos, [x] => do a <- as_set x; inl (VSet a)
  | SNeg, [x] => do a <- as_set x; inl (VSet (negate a))
  | SMul, [l; r] => do a <- as_set l; do b <- as_set r; do p <- pairwise mul_term a b; inl (VSet p)
  | SDiv, [l; r] => do a <- as_set l; do b <- as_set r; do p <- pairwise div_term a b; inl (VSet p)
  | _, _ => inr 5%nat
  end.
Fixpoint eval (fuel : nat) (a : ast) : res cval :=
  match fuel with O => inr 5%nat | S f =>
  match a with
  | ALeaf t => match kd t with
               | KValue => if lit_ok (tx t) then inl (VSet [(None, lit_val (tx t))])
                           else match tx t with x :: _ => if (x =? 34) || (x =? 39) then inr 0%nat else inr 10%nat | [] => inr 10%nat end
               | _ => inl (VSet [(Some (tx t), Q2Qc 1)])
               end
  | ANode o args =>
      (fix go (l : list ast) (acc : list cval) : res cval :=
         match l with [] => apply_op o (rev acc)
         | x :: r => match eval f x with inl v => go r (v :: acc) | inr e => inr e end end) args []
  end end.
Fixpoint asize (a : ast) : nat := match a with ALeaf _ => 1%nat | ANode _ args => S (fold_right (fun x n => (asize x + n)%nat) O args) end.

(* get_matrix: one row per constraint, constants negated *)
Definition row_of (vars : list str) (c : list sfac) : res (list Qc * Qc) :=
  if forallb (fun p => match fst p with None => true | Some v => existsb (leqb v) vars end) c
  then inl (map (fun v => match find_k (Some v) c with Some q => q | None => Q2Qc 0 end) vars,
            (- (match find_k None c with Some q => q | None => Q2Qc 0 end))%Qc)
  else inr 6%nat.
Definition compile (cl : N -> cls) (vars : list str) (s : str) : res (list (list Qc * Qc)) :=
  match tokenize cl s with
  | inr _ => inr 0%nat
  | inl toks =>
      match to_ast (map of_token toks) with
      | inr e => inr e
      | inl None => inl []
      | inl (Some a) =>
          do v <- eval (S (asize a)) a;
          let cs := match v with VSet s => [s] | VTup t => t end in
          (fix go (l : list (list sfac)) (acc : list (list Qc * Qc)) : res (list (list Qc * Qc)) :=
             match l with [] => inl (rev acc) | c :: r => match row_of vars c with inl x => go r (x :: acc) | inr e => inr e end end) cs []
      end
  end.
