(* ===== CubicSpline.v : transforms/cubic_spline.py -- natural / cyclic cubic regression splines (C12) =====
   Exact rationals.  knots: the recorded, strictly increasing knot list (lower bound, inner knots, upper bound).
   F (the map from values at the knots to second derivatives at the knots) is computed by exact Gauss-Jordan elimination of the
   same tridiagonal / cyclic systems the code hands to scipy/numpy solvers.  No proofs here. *)
From Coq Require Import List QArith Qround Bool Arith.
Import ListNotations.
Require Import BSpline.
Open Scope Q_scope.

Definition Kq (kn : list Q) (i : nat) : Q := nth i kn 0.
(* numpy.searchsorted(knots, x) (side='left') on a sorted array: the length of the prefix of knots < x *)
Fixpoint count_lt (kn : list Q) (x : Q) : nat :=
  match kn with [] => O | k :: r => if Qltb k x then S (count_lt r x) else O end.
(* _find_knots_lower_bounds *)
Definition lower_ix (kn : list Q) (x : Q) : nat :=
  let lb := (count_lt kn x - 1)%nat in            (* -1 -> 0 by truncated subtraction *)
  if Nat.eqb lb (length kn - 1) then (length kn - 2)%nat else lb.
(* _map_cyclic; numpy's % on floats: a - m*floor(a/m) *)
Definition qmod (a m : Q) : Q := a - m * inject_Z (Qfloor (a / m)).
Definition map_cyclic (lb ub x : Q) : Q :=
  if Qltb ub x then lb + qmod (x - ub) (ub - lb) else if Qltb x lb then ub - qmod (lb - x) (ub - lb) else x.

(* _compute_base_functions for one value *)
Record basefn := { ajm : Q; ajp : Q; cjm : Q; cjp : Q; jx : nat }.
Definition base_functions (kn : list Q) (x : Q) : basefn :=
  let j := lower_ix kn x in
  let h := Kq kn (S j) - Kq kn j in
  let a := Kq kn (S j) - x in
  let b := x - Kq kn j in
  {| ajm := a / h; ajp := b / h;
     cjm := (if Qltb (Kq kn (length kn - 1)) x then 0 else a * a * a / (6 * h)) - h * a / 6;
     cjp := (if Qltb x (Kq kn 0) then 0 else b * b * b / (6 * h)) - h * b / 6;
     jx := j |}.

Definition delta (a b : nat) : Q := if Nat.eqb a b then 1 else 0.
(* one row of _get_free_cubic_spline_matrix *)
Definition free_row (kn : list Q) (F : nat -> nat -> Q) (cyclic : bool) (x0 : Q) : list Q :=
  let size := length kn in
  let n := if cyclic then (size - 1)%nat else size in
  let x := if cyclic then map_cyclic (Kq kn 0) (Kq kn (size - 1)) x0 else x0 in
  let bf := base_functions kn x in
  let j := jx bf in
  let j1 := if cyclic && Nat.eqb (S j) n then O else S j in
  map (fun k => Qred (ajm bf * delta j k + ajp bf * delta j1 k + cjm bf * F j k + cjp bf * F j1 k)) (seq 0 n).   (* Qred: same rational, lowest terms *)

(* ---- the linear systems ---- *)
Definition hq (kn : list Q) (i : nat) : Q := Kq kn (S i) - Kq kn i.
(* natural: rows m = 1..size-2 (interior knots):  h_{m-1}/6 g_{m-1} + (h_{m-1}+h_m)/3 g_m + h_m/6 g_{m+1} = (D y)_m *)
Definition nat_B (kn : list Q) (m k : nat) : Q :=            (* m, k in 1..size-2 *)
  if Nat.eqb k m then (hq kn (m - 1) + hq kn m) / 3
  else if Nat.eqb (S k) m then hq kn (m - 1) / 6
  else if Nat.eqb k (S m) then hq kn m / 6 else 0.
Definition nat_D (kn : list Q) (m k : nat) : Q :=            (* m in 1..size-2, k in 0..size-1 *)
  delta k (m - 1) / hq kn (m - 1) + delta k (S m) / hq kn m - delta k m * (1 / hq kn (m - 1) + 1 / hq kn m).
(* cyclic, n = size-1 nodes, indices mod n; coinciding neighbours accumulate *)
Definition prevn (n i : nat) : nat := if Nat.eqb i 0 then (n - 1)%nat else (i - 1)%nat.
Definition nextn (n i : nat) : nat := if Nat.eqb (S i) n then O else S i.
Definition cyc_B (kn : list Q) (n m k : nat) : Q :=
  delta k m * ((hq kn (prevn n m) + hq kn m) / 3) + delta k (prevn n m) * (hq kn (prevn n m) / 6) + delta k (nextn n m) * (hq kn m / 6).
Definition cyc_D (kn : list Q) (n m k : nat) : Q :=
  delta k (prevn n m) / hq kn (prevn n m) + delta k (nextn n m) / hq kn m - delta k m * (1 / hq kn (prevn n m) + 1 / hq kn m).

(* exact Gauss-Jordan on augmented rows [A | R]: returns the rows of A^-1 R *)
Definition qr (q : Q) : Q := Qred q.
Definition scale_row (s : Q) (r : list Q) : list Q := map (fun a => qr (s * a)) r.
Fixpoint sub_row (r p : list Q) (f : Q) : list Q :=
  match r, p with a :: r', b :: p' => qr (a - f * b) :: sub_row r' p' f | _, _ => [] end.
Fixpoint take_pivot (c : nat) (rows : list (list Q)) : option (list Q * list (list Q)) :=
  match rows with
  | [] => None
  | r :: rs => if Qeq_bool (nth c r 0) 0
               then match take_pivot c rs with Some (p, others) => Some (p, r :: others) | None => None end
               else Some (r, rs)
  end.
Fixpoint gauss_jordan (cols : list nat) (top rest : list (list Q)) : option (list (list Q)) :=
  match cols with
  | [] => Some top
  | c :: cs =>
      match take_pivot c rest with
      | None => None
      | Some (p, others) =>
          let p' := scale_row (/ nth c p 0) p in
          let el r := sub_row r p' (nth c r 0) in
          gauss_jordan cs (map el top ++ [p']) (map el others)
      end
  end.
Definition solve (n : nat) (A R : nat -> nat -> Q) (off m : nat) : option (list (list Q)) :=
  (* A is n x n with indices off..off+n-1, R is n x m with row indices off.. and column indices 0..m-1 *)
  let rows := map (fun i => map (fun k => A (off + i)%nat (off + k)%nat) (seq 0 n) ++ map (fun k => R (off + i)%nat k) (seq 0 m)) (seq 0 n) in
  match gauss_jordan (seq 0 n) [] rows with
  | Some sol => Some (map (skipn n) sol)
  | None => None
  end.
Definition zeros (n : nat) : list Q := repeat 0 n.
(* _get_natural_f: zero rows for the two boundary knots around the solution for the interior ones *)
Definition natural_F (kn : list Q) : option (list (list Q)) :=
  let size := length kn in
  match solve (size - 2) (nat_B kn) (nat_D kn) 1 size with
  | Some X => Some (zeros size :: X ++ [zeros size])
  | None => None
  end.
(* _get_cyclic_f *)
Definition cyclic_F (kn : list Q) : option (list (list Q)) :=
  let n := (length kn - 1)%nat in solve n (cyc_B kn n) (cyc_D kn n) 0 n.
Definition mfun (M : list (list Q)) (r k : nat) : Q := nth k (nth r M []) 0.

(* extrapolation handling and the unconstrained design row: None = raises; Some None = nan row *)
Definition cs_row (kn : list Q) (F : nat -> nat -> Q) (cyclic : bool) (mode : extrap) (x : Q) : option (option (list Q)) :=
  let size := length kn in
  let lb := Kq kn 0 in let ub := Kq kn (size - 1) in
  let outside := Qltb x lb || Qltb ub x in
  let n := if cyclic then (size - 1)%nat else size in
  match mode with
  | XRaise => if outside then None else Some (Some (free_row kn F cyclic x))
  | XClip => Some (Some (free_row kn F cyclic (clampq lb ub x)))
  | XNa => if outside then Some None else Some (Some (free_row kn F cyclic x))
  | XZero => if outside then Some (Some (zeros n)) else Some (Some (free_row kn F cyclic x))
  | XExtend => Some (Some (free_row kn F cyclic x))
  end.
(* the centering constraint: column means of the unconstrained training matrix *)
Definition col_means (rows : list (list Q)) (n : nat) : list Q :=
  map (fun k => fold_right (fun a acc => Qred (a + acc)) 0 (map (fun r => nth k r 0) rows) / inject_Z (Z.of_nat (length rows))) (seq 0 n).

(* checkable: F satisfies the defining equations exactly *)
Definition natural_F_ok (kn : list Q) (F : nat -> nat -> Q) : bool :=
  let size := length kn in
  forallb (fun k => Qeq_bool (F O k) 0 && Qeq_bool (F (size - 1)%nat k) 0) (seq 0 size) &&
  forallb (fun m => forallb (fun k =>
     Qeq_bool (hq kn (m - 1) / 6 * F (m - 1)%nat k + (hq kn (m - 1) + hq kn m) / 3 * F m k + hq kn m / 6 * F (S m) k) (nat_D kn m k))
     (seq 0 size)) (seq 1 (size - 2)).
Fixpoint qsum (n : nat) (f : nat -> Q) : Q := match n with O => 0 | S n' => qsum n' f + f n' end.
(* checkable: b.F = d for the cyclic system *)
Definition cyclic_F_ok (kn : list Q) (F : nat -> nat -> Q) : bool :=
  let n := (length kn - 1)%nat in
  forallb (fun m => forallb (fun k => Qeq_bool (qsum n (fun j => cyc_B kn n m j * F j k)) (cyc_D kn n m k)) (seq 0 n)) (seq 0 n).
Definition strictly_increasing (kn : list Q) : bool :=
  forallb (fun i => Qltb (Kq kn i) (Kq kn (S i))) (seq 0 (length kn - 1)).
