(* ===== ShowMeta.v : cases for the metadata model ===== *)
From Coq Require Import List NArith Bool Arith.
Import ListNotations.
Require Import StrOrder Struct SpecMeta.
Open Scope nat_scope.
Fixpoint nl_eqb (a b : list nat) : bool := match a, b with [], [] => true | x :: r1, y :: r2 => Nat.eqb x y && nl_eqb r1 r2 | _, _ => false end.
Definition onl_eqb (a b : option (list nat)) := match a, b with Some x, Some y => nl_eqb x y | None, None => true | _, _ => false end.
Definition on_eqb (a b : option nat) := match a, b with Some x, Some y => Nat.eqb x y | None, None => true | _, _ => false end.
Record xcase := {
  x_rows : list srow;
  x_names : list sstr;                                 (* spec.column_names *)
  x_term_lookups : list (list sstr * option (list nat));    (* factor list (any order) -> term_indices[...] or None if KeyError *)
  x_slices : list (list sstr * option (nat * nat));    (* term_slices *)
  x_cols : list (sstr * option nat);                   (* column_indices.get(name) *)
  x_vars : list (sstr * list nat);                     (* variable_indices *)
  x_chosen : list (list sstr);                         (* terms chosen for subset / get_term_indices, in the order chosen (may name a term the spec lacks) *)
  x_subset : option (list sstr);                       (* spec.subset(chosen).column_names, None if it raises ValueError *)
  x_getix : option (list nat)                          (* spec.get_term_indices(chosen) *)
}.
Definition okl_eqb (a b : option (list sstr)) := match a, b with Some x, Some y => keyl_eqb x y | None, None => true | _, _ => false end.
Definition xcheck (c : xcase) : bool :=
  keyl_eqb (column_names (x_rows c)) (x_names c)
  && forallb (fun p => onl_eqb (lookup_term (x_rows c) (fst p)) (snd p)) (x_term_lookups c)
  && forallb (fun p => match lookup_term (x_rows c) (fst p), snd p with
                       | Some ix, Some (a, b) => let '(a', b') := slice_of ix in Nat.eqb a a' && Nat.eqb b b'
                       | None, None => true | _, _ => false end) (x_slices c)
  && forallb (fun p => on_eqb (column_index (x_rows c) (fst p)) (snd p)) (x_cols c)
  && forallb (fun p => nl_eqb (variable_indices (x_rows c) (fst p)) (snd p)) (x_vars c)
  && okl_eqb (option_map column_names (subset (x_rows c) (x_chosen c))) (x_subset c)
  && onl_eqb (get_term_indices (x_rows c) (x_chosen c)) (x_getix c).
Fixpoint chk_meta (cs : list xcase) (i : nat) : nat * list nat :=
  match cs with [] => (O, []) | c :: r => let '(m, fl) := chk_meta r (S i) in if xcheck c then (m, fl) else (S m, i :: fl) end.
