(* ===== ShowHist.v : cases for the heap model: which earlier specs changed their observable state ===== *)
From Coq Require Import List Arith Bool.
Import ListNotations.
Require Import GenPurity History.
Fixpoint nl_eqb (a b : list nat) : bool := match a, b with [], [] => true | x :: r1, y :: r2 => Nat.eqb x y && nl_eqb r1 r2 | _, _ => false end.
Definition obs_eqb (a b : option (cell * cell * bool)) : bool :=
  match a, b with Some (x1, y1, f1), Some (x2, y2, f2) => nl_eqb x1 x2 && nl_eqb y1 y2 && Bool.eqb f1 f2 | None, None => true | _, _ => false end.
(* a history, and for every operation the list of EARLIER specs whose state the implementation changed *)
Record hcase := { h_ops : list hop; h_changed : list (list nat) }.
Fixpoint hgo (w : world) (ops : list hop) (changed : list (list nat)) : bool :=
  match ops, changed with
  | [], [] => true
  | o :: r, ch :: rc =>
      let w' := wstep build_copies_transform_state build_copies_encoder_state w o in
      let mine := filter (fun s => negb (obs_eqb (observe w' s) (observe w s))) (seq 0 (length (wspecs w))) in
      nl_eqb mine ch && hgo w' r rc
  | _, _ => false
  end.
Definition hcheck (c : hcase) : bool := hgo wempty (h_ops c) (h_changed c).
Fixpoint chk_hist (cs : list hcase) (i : nat) : nat * list nat :=
  match cs with [] => (O, []) | c :: r => let '(m, fl) := chk_hist r (S i) in if hcheck c then (m, fl) else (S m, i :: fl) end.
