(* ===== Contrasts.v : the reduced-rank coding matrices of the built-in contrasts, entry by entry (C11) =====
   n = number of levels, r = row (level) index in [0,n), c = column index in [0,n-1).  Entries are integers, except
   difference coding (entries k/n) and scaled Helmert (column c divided by c+2 resp. n-c): those are given by an integer
   numerator together with a positive integer denominator.  No proofs in this file. *)
From Coq Require Import List ZArith Bool Arith Lia.
Import ListNotations.
Open Scope Z_scope.

Definition Zb (b : bool) : Z := if b then 1 else 0.
Definition zn (k : nat) : Z := Z.of_nat k.

(* treatment with reference level number b: the identity without column b *)
Definition treatment (b : nat) (r c : nat) : Z := Zb (Nat.eqb r (if Nat.ltb c b then c else S c)).
(* SAS: treatment with the last level as reference *)
Definition sas (n : nat) := treatment (n - 1).
(* sum (deviation) coding: eye(n, n-1) with the last row set to -1 *)
Definition sumc (n : nat) (r c : nat) : Z := if Nat.eqb r (n - 1) then -1 else Zb (Nat.eqb r c).
(* Helmert, reverse=True (R's contr.helmert): -1 on and above the diagonal, c+1 just below it *)
Definition helmert_rev (r c : nat) : Z := if Nat.leb r c then -1 else if Nat.eqb r (S c) then zn (S c) else 0.
(* Helmert, reverse=False: n-c-1 on the diagonal, -1 below it *)
Definition helmert_fwd (n : nat) (r c : nat) : Z := if Nat.eqb r c then zn (n - c - 1) else if Nat.ltb c r then -1 else 0.
(* scaling divides column c by: *)
Definition helmert_rev_den (c : nat) : Z := zn (c + 2).
Definition helmert_fwd_den (n c : nat) : Z := zn (n - c).
(* difference coding, backward=True: numerator over the common denominator n:  (c+1) - n*[r <= c] ; forward = negated *)
Definition diff_num (n : nat) (r c : nat) : Z := zn (S c) - (if Nat.leb r c then zn n else 0).
Definition diff_fwd_num (n : nat) (r c : nat) : Z := - diff_num n r c.
(* full-rank coding of every contrast: the identity *)
Definition full (r c : nat) : Z := Zb (Nat.eqb r c).

(* finite sums and matrix products over index functions *)
Fixpoint sumZ (f : nat -> Z) (n : nat) : Z := match n with O => 0 | S k => sumZ f k + f k end.
(* [1 | C] : column 0 is the constant, column j+1 is column j of C *)
Definition with_const (C : nat -> nat -> Z) (r j : nat) : Z := match j with O => 1 | S c => C r c end.
Definition mmul (n : nat) (A B : nat -> nat -> Z) (i j : nat) : Z := sumZ (fun k => A i k * B k j) n.

(* the textbook interpretations (coefficient matrices K, rows = what each regression coefficient estimates), scaled to integers *)
(* treatment: row 0 = reference level; row j+1 = level - reference *)
Definition K_treatment (b : nat) (i r : nat) : Z :=
  match i with O => Zb (Nat.eqb r b) | S j => let lv := if Nat.ltb j b then j else S j in Zb (Nat.eqb r lv) - Zb (Nat.eqb r b) end.
(* sum: n * K : row 0 = grand mean (all ones); row j+1 = n*e_j - ones *)
Definition nK_sum (n : nat) (i r : nat) : Z := match i with O => 1 | S j => zn n * Zb (Nat.eqb r j) - 1 end.
