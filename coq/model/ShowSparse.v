(* ===== ShowSparse.v : cases for the sparse primitives ===== *)
From Coq Require Import List NArith ZArith QArith Qcanon Bool Arith.
Import ListNotations.
Require Import Struct Sparse.
Open Scope nat_scope.
Definition qq (n : Z) (d : positive) : Qc := Q2Qc (Qmake n d).
Fixpoint spc_eqb (a b : spcol) : bool :=
  match a, b with [], [] => true | (i, x) :: r1, (j, y) :: r2 => Nat.eqb i j && Qc_eq_bool x y && spc_eqb r1 r2 | _, _ => false end.
Fixpoint kl_eqb (a b : list key) : bool := match a, b with [], [] => true | x :: r1, y :: r2 => keqb x y && kl_eqb r1 r2 | _, _ => false end.
Fixpoint spl_eqb (a b : list spcol) : bool := match a, b with [], [] => true | x :: r1, y :: r2 => spc_eqb x y && spl_eqb r1 r2 | _, _ => false end.
Inductive spcase :=
| SDummies (v : list (option key)) (levels : list key) (drop_first : bool) (exp_levels : list key) (exp_cols : list spcol)
| SMul (a b : spcol) (exp : spcol)
| SDense (c : list Qc) (exp : spcol)
| STerm (scale : Qc) (fs : list (list (key * spcol))) (exp : list (key * spcol)).
Definition spcheck (c : spcase) : bool :=
  match c with
  | SDummies v lv df el ec => let '(l, cols) := sp_dummies v lv df in kl_eqb l el && spl_eqb cols ec
  | SMul a b e => spc_eqb (sp_mul a b) e
  | SDense d e => spc_eqb (sp_of_dense d 0) e
  | STerm sc fs e => let r := sp_term_cols sc fs in kl_eqb (map fst r) (map fst e) && spl_eqb (map snd r) (map snd e)
  end.
Fixpoint chk_sparse (cs : list spcase) (i : nat) : nat * list nat :=
  match cs with [] => (O, []) | c :: r => let '(m, fl) := chk_sparse r (S i) in if spcheck c then (m, fl) else (S m, i :: fl) end.
