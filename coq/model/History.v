(* ===== History.v : a heap model of specs and their state dictionaries under sequences of builds and reuses (C18) =====
   A ModelSpec holds REFERENCES to two mutable dictionaries (transform_state, encoder_state).  `ModelSpec.update` is
   dataclasses.replace: the copy shares both references.  A build first prepares its spec (copying the dictionaries iff the
   code does so -- the two booleans come from coq/gen/GenPurity.v), then writes the fitted state into the prepared spec's
   dictionaries.  No proofs in this file. *)
From Coq Require Import List Arith Bool.
Import ListNotations.

Definition cell := list nat.                 (* content of a state dictionary: the set of recorded keys *)
Definition heap := list cell.                (* address = position *)
Record hspec := { ts : nat; es : nat; fitted : bool }.

Definition hread (h : heap) (a : nat) : cell := nth a h [].
Fixpoint hwrite (h : heap) (a : nat) (c : cell) : heap :=
  match h, a with
  | [], _ => []
  | _ :: r, O => c :: r
  | x :: r, S a' => x :: hwrite r a' c
  end.
Definition halloc (h : heap) (c : cell) : heap * nat := (h ++ [c], length h).
Definition merge (c new : cell) : cell := c ++ filter (fun k => negb (existsb (Nat.eqb k) c)) new.

Inductive hop :=
| HNew                                   (* ModelSpec(formula=...) : fresh empty dictionaries *)
| HUpdate (s : nat)                      (* spec.update(...) : shares the dictionaries *)
| HBuild (s : nat) (state : cell).       (* materialize spec number s on some data; `state` = what fitting records *)

Record world := { wheap : heap; wspecs : list hspec }.
Definition wempty : world := {| wheap := []; wspecs := [] |}.

Section Step.
Variables copy_ts copy_es : bool.          (* does _prepare_model_specs copy the dictionaries? *)

Definition prepare (h : heap) (s : hspec) : heap * hspec :=
  let '(h1, t) := if copy_ts then halloc h (hread h (ts s)) else (h, ts s) in
  let '(h2, e) := if copy_es then halloc h1 (hread h1 (es s)) else (h1, es s) in
  (h2, {| ts := t; es := e; fitted := fitted s |}).

Definition wstep (w : world) (o : hop) : world :=
  match o with
  | HNew => let '(h1, t) := halloc (wheap w) [] in let '(h2, e) := halloc h1 [] in
            {| wheap := h2; wspecs := wspecs w ++ [{| ts := t; es := e; fitted := false |}] |}
  | HUpdate s => match nth_error (wspecs w) s with
                 | Some sp => {| wheap := wheap w; wspecs := wspecs w ++ [sp] |}
                 | None => w end
  | HBuild s state =>
      match nth_error (wspecs w) s with
      | Some sp =>
          let '(h1, p) := prepare (wheap w) sp in
          (* a fitted spec keeps its recorded state; an unfitted one records the state of this data *)
          let h2 := hwrite h1 (ts p) (merge (hread h1 (ts p)) state) in
          let h3 := hwrite h2 (es p) (merge (hread h2 (es p)) state) in
          {| wheap := h3; wspecs := wspecs w ++ [{| ts := ts p; es := es p; fitted := true |}] |}
      | None => w end
  end.
Definition wrun (w : world) (ops : list hop) : world := fold_left wstep ops w.
End Step.

(* what a spec "behaves like": the content of the dictionaries it can reach *)
Definition observe (w : world) (s : nat) : option (cell * cell * bool) :=
  match nth_error (wspecs w) s with Some sp => Some (hread (wheap w) (ts sp), hread (wheap w) (es sp), fitted sp) | None => None end.
