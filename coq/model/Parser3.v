(* ===== Parser3.v : term algebra, evaluation, check_terms, get_terms ===== *)
From Coq Require Import List NArith ZArith Bool Arith.
Import ListNotations.
Require Import Tok Parser Parser2.
Open Scope N_scope.

(* ---------- terms ---------- *)
Definition term := list tk.                 (* factors, de-duplicated by text, first-appearance order *)
Definition mem_txt (x : str) (l : list str) := existsb (leqb x) l.
Fixpoint dedup_f (l : list tk) (seen : list str) : list tk :=
  match l with [] => [] | f :: r => if mem_txt (tx f) seen then dedup_f r seen else f :: dedup_f r (tx f :: seen) end.
Definition mk_term (fs : list tk) : term := dedup_f fs [].
Definition tmul (a b : term) : term := mk_term (a ++ b).
Fixpoint ins_s (x : str) (l : list str) := match l with [] => [x] | y :: r => match lcmp x y with Gt => y :: ins_s x r | _ => x :: l end end.
Definition tkey (t : term) : list str := fold_right ins_s [] (map tx t).
Fixpoint keyeqb (a b : list str) := match a, b with [], [] => true | x :: a', y :: b' => leqb x y && keyeqb a' b' | _, _ => false end.
Definition teqb (a b : term) := keyeqb (tkey a) (tkey b).
Definition mem_t (t : term) (s : list term) := existsb (teqb t) s.
Fixpoint oset (l : list term) (acc : list term) : list term :=   (* dict.fromkeys *)
  match l with [] => rev acc | t :: r => if mem_t t acc then oset r acc else oset r (t :: acc) end.
Definition union (a b : list term) := oset (a ++ b) [].
Definition diff (a b : list term) := filter (fun t => negb (mem_t t b)) a.
Definition cross (a b : list term) : list term := oset (flat_map (fun s => map (fun t => tmul s t) b) a) [].

Inductive side := SSet (ts : list term) | STup (ps : list (list term)).
Inductive val := VSide (s : side) | VTwo (l r : side) | VMulti.

Definition reduce_mul (ts : list term) : res term :=
  match ts with [] => inr (EInternal 3) | t :: r => inl (fold_left tmul r t) end.
Definition nested (parents nest : list term) : res (list term) :=
  match parents with
  | [] => inr ESyntax                       (* "require at least one parent term" *)
  | _ => match reduce_mul parents with inl common => inl (union parents (oset (map (fun t => tmul common t) nest) [])) | inr e => inr e end
  end.

(* classification of a VALUE token as ast.literal_eval sees it (digits/dots/quotes only) *)
Definition is_digit (x : N) := (48 <=? x) && (x <=? 57).
Inductive lit := LInt (n : nat) | LFloat | LStr | LBad.
Fixpoint digits_val (s : str) (acc : nat) : nat := match s with [] => acc | x :: r => digits_val r (acc * 10 + N.to_nat (x - 48))%nat end.
Definition classify_lit (s : str) : lit :=
  match s with
  | [] => LBad
  | x :: _ => if (x =? cDQ) || (x =? cSQ) then LStr
              else if forallb is_digit s then
                     (if negb (x =? 48) || forallb (N.eqb 48) s then LInt (digits_val s 0) else LBad)
              else let dots := length (filter (N.eqb cDOT) s) in
                   if forallb (fun y => is_digit y || (y =? cDOT)) s && (dots =? 1)%nat && (2 <=? length s)%nat then LFloat else LBad
  end.
Fixpoint product_n (arg : list term) (n : nat) : list (list term) :=   (* itertools.product of n copies of arg, as lists of terms *)
  match n with O => [[]] | S n' => flat_map (fun t => map (cons t) (product_n arg n')) arg end.
(* the exponent must be a single term made of a single VALUE token that literal_eval reads as an int >= 1 *)
Definition power (arg pw : list term) : res (list term) :=
  match pw with
  | [[f]] =>
      if kind_eqb (kd f) KValue then
        match classify_lit (tx f) with
        | LInt (S n) => (fix go (l : list (list term)) (acc : list term) : res (list term) :=
                           match l with [] => inl (oset (rev acc) [])
                           | tup :: r => match reduce_mul tup with inl t => go r (t :: acc) | inr e => inr e end end)
                        (product_n arg (S n)) []
        | _ => inr ESyntax
        end
      else inr ESyntax
  | _ => inr ESyntax
  end.

Record pctx := { avail : option (list str); used_lhs : option (list str) }.
Definition as_set (v : val) : res (list term) := match v with VSide (SSet s) => inl s | _ => inr (EInternal 5) end.
Definition parts_of (v : val) : res (list (list term)) :=
  match v with VSide (SSet s) => inl [s] | VSide (STup ps) => inl ps | _ => inr (EInternal 5) end.
Definition side_of (v : val) : res side := match v with VSide s => inl s | _ => inr (EInternal 5) end.

Definition bind {A B} (x : res A) (f : A -> res B) : res B := match x with inl a => f a | inr e => inr e end.
Notation "'do' x <- e ; k" := (bind e (fun x => k)) (at level 200, x ident, e at level 100, k at level 200).

Definition apply_op (cx : pctx) (o : op) (args : list val) : res val :=
  match osem o, args with
  | STilde2, [l; r] => do a <- side_of l; do b <- side_of r; inl (VTwo a b)
  | STilde1, [x] => inl x
  | SMulti, _ => inl VMulti
  | SBar, [l; r] => do a <- parts_of l; do b <- parts_of r; inl (VSide (STup (a ++ b)))
  | SPlus, [l; r] => do a <- as_set l; do b <- as_set r; inl (VSide (SSet (union a b)))
  | SMinus, [l; r] => do a <- as_set l; do b <- as_set r; inl (VSide (SSet (diff a b)))
  | SUPlus, [x] => do a <- as_set x; inl (VSide (SSet a))
  | SUMinus, [x] => do a <- as_set x; inl (VSide (SSet []))
  | SStar, [l; r] => do a <- as_set l; do b <- as_set r; inl (VSide (SSet (union (oset (a ++ b) []) (cross a b))))
  | SSlash, [l; r] => do a <- as_set l; do b <- as_set r; do n <- nested a b; inl (VSide (SSet n))
  | SIn, [l; r] => do a <- as_set l; do b <- as_set r; do n <- nested b a; inl (VSide (SSet n))
  | SColon, [l; r] => do a <- as_set l; do b <- as_set r; inl (VSide (SSet (cross a b)))
  | SPow, [l; r] => do a <- as_set l; do b <- as_set r; do p <- power a b; inl (VSide (SSet p))
  | SDot, [] => match used_lhs cx with
                | None => inr (EInternal 6)      (* KeyError: key only set when include_intercept *)
                | Some used =>
                  match avail cx with
                  | None => inr ESyntax   (* FormulaParsingError *)
                  | Some vs => inl (VSide (SSet (oset (map (fun v => [ {| tx := v; kd := KName |} ])
                                     (filter (fun v => negb (mem_txt v used)) vs)) [])))
                  end
                end
  | _, _ => inr (EInternal 5)
  end.

Fixpoint eval (fuel : nat) (cx : pctx) (a : ast) : res val :=
  match fuel with O => inr (EInternal 5) | S f =>
  match a with
  | ALeaf t => inl (VSide (SSet [[t]]))
  | ANode o args =>
      (fix go (l : list ast) (acc : list val) : res val :=
         match l with
         | [] => apply_op cx o (rev acc)
         | x :: r => match eval f cx x with inl v => go r (v :: acc) | inr e => inr e end
         end) args []
  end end.
Fixpoint asize (a : ast) : nat := match a with ALeaf _ => 1%nat | ANode _ args => S (fold_right (fun x n => (asize x + n)%nat) O args) end.

(* check_terms *)
Definition is_lit (f : tk) := kind_eqb (kd f) KValue.
Definition remove_first_dot := fix go (s : str) : str := match s with [] => [] | x :: r => if x =? cDOT then r else x :: go r end.
Definition isnumeric (s : str) : bool := let s' := remove_first_dot s in match s' with [] => false | _ => forallb is_digit s' end.
Fixpoint check_terms (ts : list term) (seen : list (list str)) : bool :=   (* true = ok *)
  match ts with
  | [] => true
  | t :: r =>
      let ok1 := match t with
                 | [f] => negb (is_lit f && negb (leqb (tx f) [cONE]))
                 | _ => forallb (fun f => negb (is_lit f && negb (isnumeric (tx f)))) t
                 end in
      let h := map tx (filter (fun f => negb (is_lit f)) t) in
      ok1 && negb (existsb (keyeqb h) seen) && check_terms r (h :: seen)
  end.
Definition check_side (s : side) : bool := match s with SSet ts => check_terms ts [] | STup ps => forallb (fun p => check_terms p []) ps end.

(* variables used on the lhs: NAME tokens only (python tokens: oracle, not modelled here) *)
Fixpoint py_vars_of (pv : list (str * list str)) (s : str) : list str :=
  match pv with [] => [] | (t, vs) :: r => if leqb t s then vs else py_vars_of r s end.
Definition lhs_vars (pv : list (str * list str)) (ts : list tk) : list str :=
  flat_map (fun t => if kind_eqb (kd t) KName then [tx t] else if kind_eqb (kd t) KPython then py_vars_of pv (tx t) else []) ts.

(* python fragments: oracle = list of (text, error class) for fragments that ast rejects (0 = SyntaxError, n = internal class) *)
Fixpoint py_err (bad : list (str * nat)) (s : str) : option nat :=
  match bad with [] => None | (t, c) :: r => if leqb t s then Some c else py_err r s end.
Fixpoint cut_bad (bad : list (str * nat)) (ts : list tk) : list tk * option perr :=
  match ts with
  | [] => ([], None)
  | t :: r => match (if kind_eqb (kd t) KPython && negb (leqb (tx t) [cDOT]) then py_err bad (tx t) else None) with
              | Some O => ([], Some EPySyntax)
              | Some n => ([], Some (EInternal n))
              | None => let '(p, e) := cut_bad bad r in (t :: p, e)
              end
  end.

Definition finish_terms (fixed intercept : bool) (f : flags) (avail_vars : option (list str)) (pv : list (str * list str)) (ts0 : list tk) : res val :=
  let ts := get_tokens intercept ts0 in
  (* the variables used on the lhs are recorded for both settings of include_intercept (on the token list before / after the
     intercept insertion, which does not touch the lhs) *)
  let used := let ts1 := if intercept then insert_after cTILDE (replace_zero (map sanitize ts0)) else replace_zero (map sanitize ts0) in
              match find_rhs ts1 [] 0 with Some i => Some (lhs_vars pv (firstn (S i) ts1)) | None => Some [] end in
  match to_ast fixed f ts with
  | inr e => inr e
  | inl None => inl (VSide (SSet []))
  | inl (Some a) =>
      match eval (S (asize a)) {| avail := avail_vars; used_lhs := used |} a with
      | inr e => inr e
      | inl v => let ok := match v with VSide s => check_side s | VTwo l r => check_side l && check_side r | VMulti => true end in
                 if ok then inl v else inr ESyntax
      end
  end.

(* python normalisation (ast.unparse and backtick aliasing) is an oracle: raw fragment text -> normalised text *)
Fixpoint py_norm (pn : list (str * str)) (s : str) : str :=
  match pn with [] => s | (a, b) :: r => if leqb a s then b else py_norm r s end.
Definition normalise (pn : list (str * str)) (t : tk) : tk :=
  if kind_eqb (kd t) KPython && negb (leqb (tx t) [cDOT]) then {| tx := py_norm pn (tx t); kd := KPython |} else t.

Definition get_terms (fixed intercept : bool) (f : flags) (avail_vars : option (list str)) (bad : list (str * nat)) (pn : list (str * str))
                     (pv : list (str * list str)) (cl : N -> cls) (s : str) : res val :=
  let '(toks, lexerr) := tokenize_partial cl s in
  let '(ts0', pyerr) := cut_bad bad (map of_token toks) in
  let ts0 := map (normalise pn) ts0' in
  let terminal := match pyerr with Some e => Some e | None => match lexerr with Some _ => Some ESyntax | None => None end end in
  match terminal with
  | None => finish_terms fixed intercept f avail_vars pv ts0
  | Some e => inr e      (* list(...) forces the whole token stream first, for both settings of include_intercept *)
  end.
