(* ===== ShowM.v ===== *)
From Coq Require Import List NArith ZArith QArith Qcanon Bool Arith.
Import ListNotations.
Require Import Mat.
Open Scope N_scope.
Definition celleqb (a b : cell) := match a, b with Some x, Some y => Qc_eq_bool x y | None, None => true | _, _ => false end.
Fixpoint coleqb (a b : column) := match a, b with [], [] => true | x :: a', y :: b' => celleqb x y && coleqb a' b' | _, _ => false end.
Fixpoint colseqb (a b : list column) := match a, b with [], [] => true | x :: a', y :: b' => coleqb x y && colseqb a' b' | _, _ => false end.
Fixpoint nameseqb (a b : list str) := match a, b with [], [] => true | x :: a', y :: b' => leqb x y && nameseqb a' b' | _, _ => false end.
Fixpoint natseqb (a b : list nat) := match a, b with [], [] => true | x :: a', y :: b' => Nat.eqb x y && natseqb a' b' | _, _ => false end.
Definition sfeqb (a b : str * bool) := leqb (fst a) (fst b) && Bool.eqb (snd a) (snd b).
Fixpoint sfseqb (a b : list (str * bool)) := match a, b with [], [] => true | x :: a', y :: b' => sfeqb x y && sfseqb a' b' | _, _ => false end.
Fixpoint stseqb (a b : list (list (str * bool) * Qc)) := match a, b with [], [] => true
  | (f1, s1) :: a', (f2, s2) :: b' => sfseqb f1 f2 && Qc_eq_bool s1 s2 && stseqb a' b' | _, _ => false end.
Fixpoint structeqb (a b : list (list (list (str * bool) * Qc))) := match a, b with [], [] => true | x :: a', y :: b' => stseqb x y && structeqb a' b' | _, _ => false end.
Inductive expect := XOk (names : list str) (cols : list column) (drop : list nat) (st : list (list (list (str * bool) * Qc))) | XErr (c : nat).
Definition errcode (e : merr) := match e with EEval => 1 | ENullRaise => 2 | EOther => 3 end%nat.
Definition agree (r : res out) (x : expect) : nat :=     (* 0 ok, 1 names, 2 values, 3 drop, 4 structure, 5 class *)
  match r, x with
  | inl o, XOk n c d s => if negb (nameseqb (o_names o) n) then 1 else if negb (colseqb (o_cols o) c) then 2
                          else if negb (natseqb (o_drop o) d) then 3 else if negb (structeqb (o_struct o) s) then 4 else 0
  | inr e, XErr k => if Nat.eqb (errcode e) k then 0 else 5
  | _, _ => 5
  end%nat.
Definition q (n : Z) (d : positive) : cell := Some (Q2Qc (Qmake n d)).
Definition qq (n : Z) (d : positive) : Qc := Q2Qc (Qmake n d).
Record mcase := { m_frame : frame; m_nrows : nat; m_cfg : cfg; m_terms : list term; m_expect : expect }.
Fixpoint chk_build (cs : list mcase) (i : nat) : nat * list nat :=
  match cs with [] => (O, [])
  | c :: r => let '(m, fl) := chk_build r (S i) in
      match agree (build (m_frame c) (m_nrows c) (m_cfg c) (m_terms c)) (m_expect c) with O => (m, fl) | _ => (S m, i :: fl) end
  end.
(* which aspect disagrees: 1 names, 2 values, 3 drop set, 4 structure, 5 error class *)
Definition why (c : mcase) : nat := agree (build (m_frame c) (m_nrows c) (m_cfg c) (m_terms c)) (m_expect c).

(* structured formulas: one expectation per part, in flatten order *)
Record pcase := { p_frame : frame; p_nrows : nat; p_cfg : cfg; p_parts : list (list term); p_expect : list expect + nat }.
Definition pagree (c : pcase) : bool :=
  match build_parts (p_frame c) (p_nrows c) (p_cfg c) (p_parts c), p_expect c with
  | inl outs, inl xs => (fix go (a : list out) (b : list expect) : bool :=
                           match a, b with [], [] => true | o :: a', x :: b' => Nat.eqb (agree (inl o) x) 0 && go a' b' | _, _ => false end) outs xs
  | inr e, inr k => Nat.eqb (errcode e) k
  | _, _ => false
  end.
Fixpoint chk_parts (cs : list pcase) (i : nat) : nat * list nat :=
  match cs with [] => (O, []) | c :: r => let '(m, fl) := chk_parts r (S i) in if pagree c then (m, fl) else (S m, i :: fl) end.

(* required variables: the model's list, sorted and without repeats, against the names Formula.required_variables reports *)
Record rcase := { r_terms : list term; r_names : list str }.
Fixpoint chk_required (cs : list rcase) (i : nat) : nat * list nat :=
  match cs with [] => (O, [])
  | c :: r => let '(m, fl) := chk_required r (S i) in
      if nameseqb (fold_right ins_s [] (required_vars (r_terms c))) (r_names c) then (m, fl) else (S m, i :: fl)
  end.
