(* ===== Calc.v ===== *)
From Coq Require Import List Arith Bool QArith Qcanon Lia.
Import ListNotations.

(* factors are identified by nat ids here; the real model uses expression strings *)
Inductive dterm := DZero | DTerm (fs : list nat).      (* DTerm [] prints as the literal 1 *)

Definition mem (v : nat) (l : list nat) := existsb (Nat.eqb v) l.
Definition remove (v : nat) (l : list nat) := filter (fun x => negb (Nat.eqb x v)) l.

(* utils/calculus.py differentiate_term without sympy: one pass per variable, early zero *)
Fixpoint diff (fs : list nat) (wrt : list nat) : dterm :=
  match wrt with
  | [] => DTerm fs
  | v :: r => if mem v fs then diff (remove v fs) r else DZero
  end.

Section Sem.
Open Scope Qc_scope.
Definition env := nat -> Qc.
Definition upd (rho : env) (v : nat) (x : Qc) : env := fun w => if Nat.eqb w v then x else rho w.
Fixpoint prod (rho : env) (fs : list nat) : Qc := match fs with [] => 1 | f :: r => rho f * prod rho r end.
Definition sem (rho : env) (t : dterm) : Qc := match t with DZero => 0 | DTerm fs => prod rho fs end.

Lemma prod_upd_notin rho v x fs : mem v fs = false -> prod (upd rho v x) fs = prod rho fs.
Proof.
  induction fs as [|f r IH]; [reflexivity|]. cbn [mem existsb prod]. intros H. apply orb_false_iff in H as [H1 H2].
  unfold upd at 1. rewrite (Nat.eqb_sym f v), H1. rewrite IH by assumption. reflexivity.
Qed.
Lemma remove_notin v fs : mem v fs = false -> remove v fs = fs.
Proof.
  induction fs as [|f r IH]; [reflexivity|]. cbn [mem existsb]. intros H. apply orb_false_iff in H as [H1 H2].
  unfold remove. cbn [filter]. rewrite (Nat.eqb_sym f v), H1. cbn [negb]. f_equal. apply IH. exact H2.
Qed.
Lemma mem_remove v fs : mem v (remove v fs) = false.
Proof.
  induction fs as [|f r IH]; [reflexivity|]. unfold remove. cbn [filter]. destruct (Nat.eqb f v) eqn:E; cbn [negb]; [exact IH|].
  cbn [mem existsb]. rewrite (Nat.eqb_sym v f), E. exact IH.
Qed.

(* multilinear: the variable occurs at most once (Term de-duplicates factors) *)
Lemma prod_split rho v fs : NoDup fs -> mem v fs = true -> prod rho fs = rho v * prod rho (remove v fs).
Proof.
  induction fs as [|f r IH]; [discriminate|]. cbn [mem existsb prod]. intros Hnd H. inversion Hnd as [|? ? Hnin Hnd']; subst.
  unfold remove. cbn [filter]. fold (remove v r).
  destruct (Nat.eqb v f) eqn:E.
  - apply Nat.eqb_eq in E. subst f. rewrite Nat.eqb_refl. cbn [negb].
    rewrite remove_notin; [reflexivity|]. destruct (mem v r) eqn:M; auto.
    exfalso. apply Hnin. unfold mem in M. apply existsb_exists in M as (y & Hy & Ey). apply Nat.eqb_eq in Ey. subst. exact Hy.
  - cbn [orb] in H. rewrite (Nat.eqb_sym f v), E. cbn [negb prod]. rewrite (IH Hnd' H). ring.
Qed.

(* one differentiation step is the exact finite difference, for every step h <> 0 *)
Theorem diff_is_finite_difference rho v h fs : NoDup fs -> h <> 0 ->
  sem rho (diff fs [v]) = (prod (upd rho v (rho v + h)) fs - prod rho fs) / h.
Proof.
  intros Hnd Hh. cbn [diff]. destruct (mem v fs) eqn:M.
  - cbn [sem]. rewrite (prod_split rho v fs Hnd M). rewrite (prod_split (upd rho v (rho v + h)) v fs Hnd M).
    rewrite (prod_upd_notin rho v (rho v + h) _ (mem_remove v fs)). unfold upd at 1. rewrite Nat.eqb_refl. field. exact Hh.
  - cbn [sem]. rewrite (prod_upd_notin rho v (rho v + h) fs M). field. exact Hh.
Qed.

(* second derivative in the same variable is zero; absent variable gives zero; order of terms is a map *)
Lemma diff_twice v fs : diff fs [v; v] = DZero.
Proof. cbn. destruct (mem v fs); [rewrite mem_remove|]; reflexivity. Qed.
Lemma diff_absent v fs r : mem v fs = false -> diff fs (v :: r) = DZero.
Proof. intros H. cbn. rewrite H. reflexivity. Qed.
Definition diff_formula (ts : list (list nat)) (wrt : list nat) := map (fun t => diff t wrt) ts.
Lemma diff_formula_length ts wrt : length (diff_formula ts wrt) = length ts.
Proof. apply map_length. Qed.
End Sem.
Print Assumptions diff_is_finite_difference.
