(* ===== Calc.v : differentiate_term without sympy, SimpleFormula.differentiate (C20). No proofs in this file. =====
   a term = list of factor expressions (distinct: Term de-duplicates); a factor is "affected" by a variable iff its
   expression equals the variable; DTerm [] prints as the literal 1, DZero as the literal 0. *)
From Coq Require Import List Arith Bool QArith Qcanon NArith.
Import ListNotations.
Require Import Struct.

Inductive dterm := DZero | DTerm (fs : list key).

Definition mem (v : key) (l : list key) := existsb (keqb v) l.
Definition remove (v : key) (l : list key) := filter (fun x => negb (keqb x v)) l.

(* one pass per variable, early zero *)
Fixpoint diff (fs : list key) (wrt : list key) : dterm :=
  match wrt with
  | [] => DTerm fs
  | v :: r => if mem v fs then diff (remove v fs) r else DZero
  end.
(* SimpleFormula.differentiate: term by term, ordering preserved (OrderingMethod.NONE) *)
Definition diff_formula (ts : list (list key)) (wrt : list key) : list dterm := map (fun t => diff t wrt) ts.

(* numeric semantics of a term over exact rationals: the product of its factors' values *)
Definition env := key -> Qc.
Definition upd (rho : env) (v : key) (x : Qc) : env := fun w => if keqb w v then x else rho w.
Fixpoint prod (rho : env) (fs : list key) : Qc := match fs with [] => Q2Qc 1 | f :: r => (rho f * prod rho r)%Qc end.
Definition sem (rho : env) (t : dterm) : Qc := match t with DZero => Q2Qc 0 | DTerm fs => prod rho fs end.
