(* ===== ShowR.v : cases for the replay model ===== *)
From Coq Require Import List NArith ZArith QArith Qcanon Bool Arith.
Import ListNotations.
Require Import Mat ShowM Mat2.
Open Scope N_scope.
Inductive rexpect := RXOk (names : list str) (cols : list column) (drop : list nat) | RXErr (c : nat).
Definition rcode (e : rerr) := match e with REval => 1 | RNull => 2 | RTooMany => 3 | RInsufficient => 4 | RInconsistent => 5 | ROther => 6 | RKind => 7 end%nat.
Definition ragree (r : (list str * list column * list nat) + rerr) (x : rexpect) : nat :=
  match r, x with
  | inl (n, c, d), RXOk n' c' d' => if negb (nameseqb n n') then 1 else if negb (colseqb c c') then 2 else if negb (natseqb d d') then 3 else 0
  | inr e, RXErr k => if Nat.eqb (rcode e) k then 0 else 5
  | _, _ => 5
  end%nat.
Definition mkst (fs : list (str * bool)) (sc : Qc) : sterm := {| st_f := fs; st_scale := sc |}.
Record rcase := { r_spec : spec; r_frame : frame; r_nrows : nat; r_caller : list nat; r_expect : rexpect }.
Definition rwhy (c : rcase) : nat := ragree (replay (r_spec c) (r_frame c) (r_nrows c) (r_caller c)) (r_expect c).
Fixpoint chk_replay (cs : list rcase) (i : nat) : nat * list nat :=
  match cs with [] => (O, [])
  | c :: r => let '(m, fl) := chk_replay r (S i) in match rwhy c with O => (m, fl) | _ => (S m, i :: fl) end
  end.

(* the data-mismatch warning: model `warns` against what the implementation announced *)
Record wcase := { w_spec : spec; w_frame : frame; w_warned : bool }.
Fixpoint chk_warn (cs : list wcase) (i : nat) : nat * list nat :=
  match cs with [] => (O, [])
  | c :: r => let '(m, fl) := chk_warn r (S i) in if Bool.eqb (warns (w_spec c) (w_frame c)) (w_warned c) then (m, fl) else (S m, i :: fl)
  end.
