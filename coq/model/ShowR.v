(* ===== ShowR.v ===== *)
From Coq Require Import List NArith ZArith QArith Qcanon Bool Arith.
Import ListNotations.
Require Import Mat ShowM Mat2.
Open Scope N_scope.
Inductive rexpect := RXOk (names : list str) (cols : list column) (drop : list nat) | RXErr (c : nat).
Definition rcode (e : rerr) := match e with REval => 1 | RNull => 2 | RTooMany => 3 | RInsufficient => 4 | RInconsistent => 5 | ROther => 6 end%nat.
Definition ragree (r : (list str * list column * list nat) + rerr) (x : rexpect) : nat :=
  match r, x with
  | inl (n, c, d), RXOk n' c' d' => if negb (nameseqb n n') then 1 else if negb (colseqb c c') then 2 else if negb (natseqb d d') then 3 else 0
  | inr e, RXErr k => if Nat.eqb (rcode e) k then 0 else 5
  | _, _ => 5
  end%nat.
Definition mkst (fs : list (str * bool)) (sc : Qc) : sterm := {| st_f := map (fun p => {| sf_expr := fst p; sf_red := snd p |}) fs; st_scale := sc |}.
Definition rcase := (spec * frame * nat * list nat * rexpect)%type.
Fixpoint rchk (cs : list rcase) (i : nat) : nat * list (nat * nat) :=
  match cs with [] => (O, [])
  | (sp, d, n, cd, x) :: r => let '(m, fl) := rchk r (S i) in
      match ragree (replay sp d n cd) x with O => (m, fl) | k => (S m, (i, k) :: fl) end
  end.
