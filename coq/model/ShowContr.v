(* ===== ShowContr.v : cases for the contrast codings ===== *)
From Coq Require Import List ZArith QArith Bool Arith.
Import ListNotations.
Require Import Contrasts.
Open Scope Z_scope.
Inductive ckind := KTreatment (base : nat) | KSas | KSum | KHelmert (reverse scale : bool) | KDiff (backward : bool).
(* model entry as a rational num/den *)
Definition entry (k : ckind) (n r c : nat) : Z * Z :=
  match k with
  | KTreatment b => (treatment b r c, 1)
  | KSas => (sas n r c, 1)
  | KSum => (sumc n r c, 1)
  | KHelmert true false => (helmert_rev r c, 1)
  | KHelmert false false => (helmert_fwd n r c, 1)
  | KHelmert true true => (helmert_rev r c, helmert_rev_den c)
  | KHelmert false true => (helmert_fwd n r c, helmert_fwd_den n c)
  | KDiff true => (diff_num n r c, zn n)
  | KDiff false => (diff_fwd_num n r c, zn n)
  end.
(* the implementation's cell as an exact fraction p/q of the float it returned; agreement within 2^-40 *)
Definition close (m : Z * Z) (v : Z * positive) : bool :=
  let '(mn, md) := m in let '(p, q) := v in
  (* |mn/md - p/q| <= 2^-40   <=>   |mn*q - p*md| * 2^40 <= |md| * q *)
  (Z.abs (mn * Z.pos q - p * md) * 2 ^ 40 <=? Z.abs md * Z.pos q).
Record kcase := { k_kind : ckind; k_n : nat; k_cells : list (list (Z * positive)) }.   (* rows of the implementation's coding matrix *)
Definition kcheck (c : kcase) : bool :=
  Nat.eqb (length (k_cells c)) (k_n c) &&
  forallb (fun ri => let '(r, row) := ri in
             Nat.eqb (length row) (k_n c - 1) &&
             forallb (fun cj => let '(j, v) := cj in close (entry (k_kind c) (k_n c) r j) v) (combine (seq 0 (length row)) row))
          (combine (seq 0 (k_n c)) (k_cells c)).
Fixpoint chk_contr (cs : list kcase) (i : nat) : nat * list nat :=
  match cs with [] => (O, []) | c :: r => let '(m, fl) := chk_contr r (S i) in if kcheck c then (m, fl) else (S m, i :: fl) end.

(* encoding data: one row per datum, level index (None = null or a value outside the level list) *)
Record ecase := { e_kind : ckind; e_n : nat; e_reduced : bool; e_data : list (option nat); e_rows : list (list (Z * positive)) }.
Definition erow (k : ckind) (n : nat) (reduced : bool) (o : option nat) : list (Z * Z) :=
  map (fun c => match o with
                | Some r => if reduced then entry k n r c else (full r c, 1)
                | None => (0, 1) end) (seq 0 (if reduced then n - 1 else n)).
Fixpoint all2 {A B} (f : A -> B -> bool) (a : list A) (b : list B) : bool :=
  match a, b with [], [] => true | x :: a', y :: b' => f x y && all2 f a' b' | _, _ => false end.
Definition echeck (c : ecase) : bool :=
  all2 (fun o row => all2 close (erow (e_kind c) (e_n c) (e_reduced c) o) row) (e_data c) (e_rows c).
Fixpoint chk_enc (cs : list ecase) (i : nat) : nat * list nat :=
  match cs with [] => (O, []) | c :: r => let '(m, fl) := chk_enc r (S i) in if echeck c then (m, fl) else (S m, i :: fl) end.
