(* ===== ShowCalc.v : cases for differentiation ===== *)
From Coq Require Import List Arith Bool NArith.
Import ListNotations.
Require Import Struct Calc.
Fixpoint kl_eqb (a b : list key) : bool := match a, b with [], [] => true | x :: r1, y :: r2 => keqb x y && kl_eqb r1 r2 | _, _ => false end.
(* the implementation prints 0 as a term with the literal factor "0", and 1 as a term with the literal factor "1" *)
Definition show_d (t : dterm) : list key := match t with DZero => [[48]%N] | DTerm [] => [[49]%N] | DTerm fs => fs end.
Record dcase := { d_terms : list (list key); d_wrt : list key; d_expect : list (list key) }.
Fixpoint kll_eqb (a b : list (list key)) : bool := match a, b with [], [] => true | x :: r1, y :: r2 => kl_eqb x y && kll_eqb r1 r2 | _, _ => false end.
Definition dcheck (c : dcase) : bool := kll_eqb (map show_d (diff_formula (d_terms c) (d_wrt c))) (d_expect c).
Fixpoint chk_diff (cs : list dcase) (i : nat) : nat * list nat :=
  match cs with [] => (O, []) | c :: r => let '(m, fl) := chk_diff r (S i) in if dcheck c then (m, fl) else (S m, i :: fl) end.
