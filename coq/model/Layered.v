(* ===== Layered.v : model of formulaic.utils.layered_mapping.LayeredMapping (C19, C17) =====
   A layer is a plain mapping or another LayeredMapping.  A LayeredMapping is [Sub name mutations layers].
   No proofs in this file. *)
From Coq Require Import List Arith Bool NArith.
Import ListNotations.
Require Import Struct.

Inductive lay (V : Type) :=
| Plain (d : list (key * V))
| Sub (name : option key) (mut : list (key * V)) (layers : list (lay V)).
Arguments Plain {V}. Arguments Sub {V}.

Section L.
Context {V : Type}.

(* __getitem__ : first of mutations followed by layers that contains the key *)
Fixpoint lget (k : key) (l : lay V) : option V :=
  match l with
  | Plain d => dget k d
  | Sub _ mut ls =>
      match dget k mut with
      | Some v => Some v
      | None => (fix go (ls : list (lay V)) : option V :=
                   match ls with [] => None | x :: r => match lget k x with Some v => Some v | None => go r end end) ls
      end
  end.

(* __iter__ : keys of mutations then of each layer, each key the first time it is seen *)
Fixpoint dedup (seen : list key) (l : list key) : list key :=
  match l with [] => [] | k :: r => if existsb (keqb k) seen then dedup seen r else k :: dedup (k :: seen) r end.
Fixpoint liter (l : lay V) : list key :=
  match l with
  | Plain d => dkeys d
  | Sub _ mut ls => dedup [] (dkeys mut ++ flat_map liter ls)
  end.
(* __len__ : len(set(chain(mutations, layers...))) -- a set built by insertion *)
Definition set_add (k : key) (s : list key) : list key := if existsb (keqb k) s then s else k :: s.
Fixpoint chain_keys (l : lay V) : list key :=
  match l with Plain d => dkeys d | Sub _ mut ls => dkeys mut ++ flat_map liter ls end.
Definition llen (l : lay V) : nat := length (fold_left (fun s k => set_add k s) (chain_keys l) []).

(* __setitem__, __delitem__ : only the private mutation layer is touched *)
Definition lset (k : key) (v : V) (l : lay V) : lay V :=
  match l with Sub n mut ls => Sub n (dset k v mut) ls | p => p end.
Definition ldel (k : key) (l : lay V) : option (lay V) :=
  match l with Sub n mut ls => if dmem k mut then Some (Sub n (ddel k mut) ls) else None | _ => None end.
Definition layers_of (l : lay V) : list (lay V) := match l with Sub _ _ ls => ls | Plain _ => [] end.
Definition mut_of (l : lay V) : list (key * V) := match l with Sub _ m _ => m | Plain _ => [] end.

(* with_layers(layers..., prepend, inplace, name) ; None layers already filtered by the caller *)
Definition with_layers (l : lay V) (new : list (lay V)) (prepend inplace : bool) (name : option key) : lay V :=
  match new with
  | [] => l
  | _ => if inplace then
           match l with Sub _ mut ls => Sub name mut (if prepend then new ++ ls else ls ++ new) | p => p end
         else Sub name [] (if prepend then new ++ [l] else l :: new)
  end.

(* get_with_layer_name(key) : value and the path of layer names (joined by ":" in python; [] = None) *)
Fixpoint lget_named (k : key) (path : list key) (l : lay V) : option (V * list key) :=
  match l with
  | Plain d => match dget k d with Some v => Some (v, path) | None => None end
  | Sub name mut ls =>
      let here := match name with Some n => path ++ [n] | None => path end in
      match dget k mut with
      | Some v => Some (v, here)
      | None => (fix go (ls : list (lay V)) : option (V * list key) :=
                   match ls with
                   | [] => None
                   | x :: r => match lget k x with
                               | Some v => match x with
                                           | Plain _ => Some (v, here)
                                           | Sub _ _ _ => lget_named k here x
                                           end
                               | None => go r end
                   end) ls
      end
  end.

(* specification side: the top-first concatenation of all layers *)
Fixpoint lflat (l : lay V) : list (key * V) :=
  match l with Plain d => d | Sub _ mut ls => mut ++ flat_map lflat ls end.
End L.

(* operations of a history on one LayeredMapping *)
Inductive lop (V : Type) := OSet (k : key) (v : V) | ODel (k : key).
Arguments OSet {V}. Arguments ODel {V}.
Definition lstep {V} (l : lay V) (o : lop V) : lay V :=
  match o with OSet k v => lset k v l | ODel k => match ldel k l with Some l' => l' | None => l end end.
