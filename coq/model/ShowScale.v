(* ===== ShowScale.v : cases for scale()/center(): implementation floats (as exact fractions) against the exact model ===== *)
From Coq Require Import List ZArith QArith Qcanon Bool Arith.
Import ListNotations.
Require Import Poly Scale ShowPoly.
Open Scope Qc_scope.

(* |v - m| <= tol * (|m| + mag) *)
Definition near (mag m v : Qc) : bool := qle (qabs (v - m)) (tol * (qabs m + mag)).
(* v ~ m / sqrt V without the root *)
Definition near_root (mag m V v : Qc) : bool :=
  qle (qabs (v * v * V - m * m)) (tol * (m * m + mag * mag)) && (qle 0 (v * m) || qle (m * m) (tol * tol * mag * mag)).
Definition cell_ok (mag : Qc) (cell : Qc * option sc) (v : Qc) : bool :=
  match cell with
  | (m, None) => near mag m v
  | (m, Some (SVal s)) => near mag (m / s) v
  | (m, Some (SRoot V)) => if qle V 0 then true (* the implementation divides by zero: nan/inf, not comparable *) else near_root mag m V v
  end.
Inductive fflag := GBool (b : bool) | GVal (v : Z * positive).
Definition fl (f : fflag) : flag := match f with GBool b => FBool b | GVal v => FVal (fr v) end.
Record scase := { sc_train : list (Z * positive); sc_center : fflag; sc_scale : fflag; sc_ddof : Z * positive;
                  sc_new : list (Z * positive); sc_center2 : fflag; sc_scale2 : fflag; sc_ddof2 : Z * positive;
                  sc_mag : Z * positive;
                  sc_rec_center : option (Z * positive); sc_rec_scale : option (Z * positive);
                  sc_out : list (Z * positive); sc_out2 : list (Z * positive) }.
Definition state_ok (mag : Qc) (st : sstate) (c : scase) : bool :=
  match s_center st, sc_rec_center c with
  | Some (Some m), Some v => near mag m (fr v)
  | Some None, None => true
  | _, _ => false end &&
  match s_scale st, sc_rec_scale c with
  | Some (Some (SRoot V)), Some v => near (mag * mag) V (fr v * fr v)
  | Some (Some (SVal s)), Some v => near mag s (fr v)
  | Some None, None => true
  | _, _ => false end.
Definition degenerate (st : sstate) : bool := match s_scale st with Some (Some (SRoot V)) => qle V 0 | _ => false end.
Definition scheck (c : scase) : bool :=
  let mag := fr (sc_mag c) in
  let '(st, rows) := scale_step s_empty (fl (sc_center c)) (fl (sc_scale c)) (fr (sc_ddof c)) (map fr (sc_train c)) in
  let '(st2, rows2) := scale_step st (fl (sc_center2 c)) (fl (sc_scale2 c)) (fr (sc_ddof2 c)) (map fr (sc_new c)) in
  degenerate st ||
  (state_ok mag st c && all2 (cell_ok mag) rows (map fr (sc_out c)) && all2 (cell_ok mag) rows2 (map fr (sc_out2 c))).
Fixpoint chk_scale (cs : list scase) (i : nat) : nat * list nat :=
  match cs with [] => (O, []) | c :: r => let '(m, fl) := chk_scale r (S i) in if scheck c then (m, fl) else (S m, i :: fl) end.

(* elementwise functions at integer points, where the real function is an integer power (ElemLaws.exp10_at_naturals):
   el_fn 0 = exp10(n), 1 = exp2(n), 2 = log10(10^n), 3 = log2(2^n) *)
Record elcase := { el_fn : nat; el_n : nat; el_v : Z * positive }.
Definition zq (z : Z) : Qc := Q2Qc (inject_Z z).
Definition tiny : Qc := Q2Qc (1 # 1099511627776).     (* 2^-40 *)
Definition elcheck (c : elcase) : bool :=
  let v := fr (el_v c) in
  let want := match el_fn c with
              | 0%nat => zq (10 ^ Z.of_nat (el_n c)) | 1%nat => zq (2 ^ Z.of_nat (el_n c))
              | _ => zq (Z.of_nat (el_n c)) end in
  qle (qabs (v - want)) (tiny * (qabs want + 1)).
Fixpoint chk_elem (cs : list elcase) (i : nat) : nat * list nat :=
  match cs with [] => (O, []) | c :: r => let '(m, fl) := chk_elem r (S i) in if elcheck c then (m, fl) else (S m, i :: fl) end.
