(* ===== ShowPoly.v : cases for poly() / PolyContrasts: implementation floats (as exact fractions) against the exact model ===== *)
From Coq Require Import List ZArith QArith Qcanon Bool Arith.
Import ListNotations.
Require Import Poly.
Open Scope Qc_scope.

Definition fr (v : Z * positive) : Qc := Q2Qc (fst v # snd v).
Definition qle (a b : Qc) : bool := Qle_bool (this a) (this b).
Definition qabs (a : Qc) : Qc := if qle 0 a then a else - a.
Definition tol : Qc := Q2Qc (1 # 16777216).     (* 2^-24 *)
(* relative closeness of a recorded statistic *)
Definition close_rel (m v : Qc) : bool := qle (qabs (v - m)) (tol * (qabs m + tol)).
(* v ~ m / sqrt(N)  (N > 0), without taking the root: compare squares and signs *)
Definition close_cell (m N v : Qc) : bool :=
  qle (qabs (v * v * N - m * m)) (tol * (m * m + N * tol)) && (qle 0 (v * m) || qle (m * m) (tol * tol * N)).

Record plcase := { pl_train : list (option (Z * positive)); pl_degree : nat; pl_new : list (option (Z * positive));
                   pl_alpha : list (Z * positive); pl_norms : list (Z * positive);
                   pl_out : list (option (list (Z * positive))) }.
Definition oq (o : option (Z * positive)) : option Qc := option_map fr o.
Fixpoint all2 {A B} (f : A -> B -> bool) (a : list A) (b : list B) : bool :=
  match a, b with [], [] => true | x :: a', y :: b' => f x y && all2 f a' b' | _, _ => false end.
Definition plcheck (c : plcase) : bool :=
  let st := fit (nonnull (map oq (pl_train c))) (pl_degree c) in
  all2 (fun m v => close_rel m (fr v)) (fst st) (pl_alpha c) &&
  all2 (fun m v => close_rel m (fr v)) (snd st) (pl_norms c) &&
  all2 (fun m o => match m, o with
                   | None, None => true
                   | Some row, Some vs => all2 (fun mk vk => close_cell (fst mk) (snd mk) (fr vk)) (combine row (tl (snd st))) vs
                   | _, _ => false end)
       (apply_raw st (pl_degree c) (map oq (pl_new c))) (pl_out c).
Fixpoint chk_poly (cs : list plcase) (i : nat) : nat * list nat :=
  match cs with [] => (O, []) | c :: r => let '(m, fl) := chk_poly r (S i) in if plcheck c then (m, fl) else (S m, i :: fl) end.
