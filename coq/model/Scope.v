(* ===== Scope.v : _simplify_scoped_terms on factor sets, and the component semantics (C03) =====
   scoped factor = (factor expression, reduced); numeric-ness is a function of the expression. *)
From Coq Require Import List Arith Bool Lia Permutation NArith.
Import ListNotations.

(* scoped factor = (id, reduced); numeric-ness is a global function of the id *)
Definition fid_t := list N.
Fixpoint ideqb (a b : fid_t) : bool :=
  match a, b with [], [] => true | x :: a', y :: b' => N.eqb x y && ideqb a' b' | _, _ => false end.
Lemma ideqb_eq a b : ideqb a b = true <-> a = b.
Proof.
  revert b; induction a as [|x a IH]; destruct b as [|y b]; cbn; split; intro H; try discriminate; auto.
  - apply andb_true_iff in H as [H1 H2]. apply N.eqb_eq in H1. apply IH in H2. congruence.
  - inversion H; subst. rewrite N.eqb_refl. apply IH. reflexivity.
Qed.
Definition sfac := (fid_t * bool)%type.
Definition fid (f : sfac) := fst f.
Definition fred (f : sfac) := snd f.
Definition sterm := list sfac.

Definition sf_eqb (a b : sfac) := ideqb (fst a) (fst b) && Bool.eqb (snd a) (snd b).
Lemma sf_eqb_spec a b : sf_eqb a b = true <-> a = b.
Proof.
  destruct a as [i r], b as [j s]; unfold sf_eqb; cbn. rewrite andb_true_iff, ideqb_eq, eqb_true_iff.
  split; [intros [-> ->]; reflexivity | intros [= -> ->]; auto].
Qed.
Definition mem_sf x (t : sterm) := existsb (sf_eqb x) t.
Lemma mem_sf_spec x t : mem_sf x t = true <-> In x t.
Proof.
  unfold mem_sf. rewrite existsb_exists. split.
  - intros (y & Hy & He). apply sf_eqb_spec in He. subst. exact Hy.
  - intros H. exists x. split; [exact H | apply sf_eqb_spec; reflexivity].
Qed.
Definition sdiff (a b : sterm) := filter (fun x => negb (mem_sf x b)) a.
Definition st_eqb (a b : sterm) := forallb (fun x => mem_sf x b) a && forallb (fun x => mem_sf x a) b.
Lemma st_eqb_spec a b : st_eqb a b = true <-> (forall x, In x a <-> In x b).
Proof.
  unfold st_eqb. rewrite andb_true_iff, !forallb_forall. split.
  - intros [H1 H2] x. split; intros H; [apply mem_sf_spec, H1, H | apply mem_sf_spec, H2, H].
  - intros H. split; intros x Hx; apply mem_sf_spec, H, Hx.
Qed.
Definition mem_st x (ts : list sterm) := existsb (st_eqb x) ts.
Definition merge_into (st : sterm) (fnew : sfac) : sterm :=
  map (fun f => if sf_eqb f fnew then (fst f, false) else f) st.

Fixpoint find_merge (st : sterm) (terms : list sterm) : option (sterm * sfac) :=
  match terms with
  | [] => None
  | e :: rest =>
      let d := sdiff st e in
      if (length st - 1 =? length e) && (length d =? 1) then
        match d with
        | fnew :: _ => if fred fnew then Some (e, fnew) else find_merge st rest
        | [] => find_merge st rest
        end
      else find_merge st rest
  end.

Definition add_term (ts : list sterm) (t : sterm) := if mem_st t ts then ts else ts ++ [t].
Definition remove_term (ts : list sterm) (t : sterm) := filter (fun x => negb (st_eqb x t)) ts.

Fixpoint insert_by_len (t : sterm) (l : list sterm) :=
  match l with [] => [t] | x :: r => if length x <? length t then x :: insert_by_len t r else t :: l end.
Definition sort_by_len (l : list sterm) := fold_right insert_by_len [] l.

Definition sstep (rec : list sterm -> list sterm) (terms : list sterm) (st : sterm) :=
  match find_merge st terms with
  | Some (e, fnew) => rec (add_term (remove_term terms e) (merge_into st fnew))
  | None => add_term terms st
  end.

Fixpoint simplify (fuel : nat) (ts : list sterm) : list sterm :=
  match fuel with
  | O => ts
  | S fuel' => fold_left (sstep (simplify fuel')) (sort_by_len ts) []
  end.

Section Sem.
Variable isnum : fid_t -> bool.
Definition memn (i : fid_t) (c : list fid_t) := existsb (ideqb i) c.
Lemma memn_spec i c : memn i c = true <-> In i c.
Proof. unfold memn. rewrite existsb_exists. split; [intros (y & Hy & He); apply ideqb_eq in He; subst; auto | intros H; exists i; split; [auto | apply ideqb_eq; reflexivity]]. Qed.
Definition required (f : sfac) := fred f || isnum (fid f).
Definition covers (t : sterm) (c : list fid_t) : bool :=
  forallb (fun f => implb (required f) (memn (fid f) c)) t && forallb (fun i => memn i (map fid t)) c.
Definition count (c : list fid_t) (ts : list sterm) := length (filter (fun t => covers t c) ts).
Definition nred1 (t : sterm) := length (filter fred t).
Definition nred (ts : list sterm) := fold_right (fun t n => nred1 t + n) 0 ts.
Definition wf_term (t : sterm) := NoDup (map fid t).
End Sem.
