(* ===== Sparse.v : CSC columns as used by the sparse output path (C05) =====
   a column = list of (row index, value) with distinct row indices; absent rows are 0. No proofs in this file. *)
From Coq Require Import List NArith ZArith QArith Qcanon Bool Arith.
Import ListNotations.
Require Import Struct.
Open Scope nat_scope.

Definition spcol := list (nat * Qc).
Definition sp_get (c : spcol) (i : nat) : Qc := match find (fun p => fst p =? i) c with Some p => snd p | None => Q2Qc 0 end.
Definition densify (n : nat) (c : spcol) : list Qc := map (sp_get c) (seq 0 n).

(* csc_matrix.multiply (element-wise): only rows stored in both operands survive *)
Definition sp_mul (a b : spcol) : spcol :=
  flat_map (fun p => match find (fun q => fst q =? fst p) b with Some q => [(fst p, (snd p * snd q)%Qc)] | None => [] end) a.
Definition sp_scale (s : Qc) (a : spcol) : spcol := map (fun p => (fst p, (s * snd p)%Qc)) a.
(* _encode_constant: csc_matrix(array([value] * nrows)) -- explicit zeros are not stored *)
Definition sp_const (v : Qc) (n : nat) : spcol := if Qc_eq_bool v (Q2Qc 0) then [] else map (fun i => (i, v)) (seq 0 n).
(* csc_matrix(dense column): the non-zero cells *)
Fixpoint sp_of_dense (c : list Qc) (i : nat) : spcol :=
  match c with [] => [] | x :: r => if Qc_eq_bool x (Q2Qc 0) then sp_of_dense r (S i) else (i, x) :: sp_of_dense r (S i) end.
(* categorical_encode_series_to_sparse_csc_matrix: for level number k, ones at the rows whose code is k; nulls / unknown levels have code -1 *)
Fixpoint code_of (lv : list key) (x : key) (k : nat) : option nat :=
  match lv with [] => None | y :: r => if keqb x y then Some k else code_of r x (S k) end.
Fixpoint sp_dummy (codes : list (option nat)) (k : nat) (i : nat) : spcol :=
  match codes with
  | [] => []
  | Some c :: r => if c =? k then (i, Q2Qc 1) :: sp_dummy r k (S i) else sp_dummy r k (S i)
  | None :: r => sp_dummy r k (S i)
  end.
Definition sp_dummies (v : list (option key)) (levels : list key) (drop_first : bool) : list key * list spcol :=
  let lv := if drop_first then tl levels else levels in
  let codes := map (fun o => match o with Some x => code_of lv x 0 | None => None end) v in
  (lv, map (fun k => sp_dummy codes k 0) (seq 0 (length lv))).

(* _get_columns_for_term with output='sparse': the row-wise Kronecker product of the factors' columns, the first factor varying fastest,
   names joined by ':', every product column multiplied by the term's scale *)
Fixpoint sp_kron (fs : list (list (key * spcol))) : list (key * spcol) :=
  match fs with
  | [] => []
  | [f] => f
  | f :: rest => flat_map (fun rc => map (fun fc => (fst fc ++ [58%N] ++ fst rc, sp_mul (snd fc) (snd rc))) f) (sp_kron rest)
  end.
Definition sp_term_cols (scale : Qc) (fs : list (list (key * spcol))) : list (key * spcol) :=
  map (fun nc => (fst nc, sp_scale scale (snd nc))) (sp_kron fs).
