(* ===== ShowSR.v : the spec a build records -- model (SpecRec.spec_of) against the implementation's ModelSpec (C04) ===== *)
From Coq Require Import List NArith ZArith QArith Qcanon Bool Arith.
Import ListNotations.
Require Import Mat ShowM Mat2 SpecRec.
Open Scope nat_scope.
Record srcase := { sr_frame : frame; sr_nrows : nat; sr_cfg : cfg; sr_terms : list term; sr_spec : spec }.
Fixpoint list_eqb {A} (f : A -> A -> bool) (a b : list A) : bool :=
  match a, b with [], [] => true | x :: a', y :: b' => f x y && list_eqb f a' b' | _, _ => false end.
Definition st_same (a b : sterm) : bool := list_eqb sfeqb (st_f a) (st_f b) && Qc_eq_bool (st_scale a) (st_scale b).
Definition row_same (a b : list sterm * list str) : bool := list_eqb st_same (fst a) (fst b) && nameseqb (snd a) (snd b).
Definition kind_same (a b : ekind) : bool :=
  match a, b with KNum, KNum => true | KCat l, KCat l' => nameseqb l l' | _, _ => false end.
(* 0 = agree; 1 structure differs; 2 a recorded kind / level list differs; 3 the build itself failed *)
Definition srwhy (c : srcase) : nat :=
  match eval_pool (sr_frame c) (pool_of (sr_terms c)) [] with
  | inr _ => 3
  | inl evs =>
      let sp := spec_of (sr_cfg c) (sr_terms c) evs (sr_nrows c) in
      if negb (list_eqb row_same (sp_struct sp) (sp_struct (sr_spec c))) then 1
      else if negb (forallb (fun kv => match enc_lookup (sp_enc sp) (fst kv) with Some k => kind_same k (snd kv) | None => false end) (sp_enc (sr_spec c))) then 2
      else 0
  end.
Fixpoint chk_specrec (cs : list srcase) (i : nat) : nat * list nat :=
  match cs with [] => (O, [])
  | c :: r => let '(m, fl) := chk_specrec r (S i) in match srwhy c with O => (m, fl) | _ => (S m, i :: fl) end
  end.
