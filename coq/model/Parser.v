(* ===== Parser.v : token rewriting and sign-run collapse ===== *)
From Coq Require Import List NArith ZArith Bool Arith.
Import ListNotations.
Require Import Tok.
Open Scope N_scope.

(* ---------- strings ---------- *)
Definition str := list N.
Fixpoint leqb (a b : str) : bool :=
  match a, b with [], [] => true | x :: a', y :: b' => (x =? y) && leqb a' b' | _, _ => false end.
Fixpoint lcmp (a b : str) : comparison :=
  match a, b with
  | [], [] => Eq | [], _ => Lt | _, [] => Gt
  | x :: a', y :: b' => match x ?= y with Eq => lcmp a' b' | c => c end
  end.
Definition cPLUS := 43. Definition cMINUS := 45. Definition cTILDE := 126. Definition cBAR := 124.
Definition cDOT := 46. Definition cONE := 49. Definition cZERO := 48.

(* ---------- tokens after lexing ---------- *)
Record tk := { tx : str; kd : kind }.
Definition of_token (t : token) : tk := {| tx := ttext t; kd := match tkind t with Some k => k | None => KName end |}.
Definition is_op (t : tk) := kind_eqb (kd t) KOperator.
Definition t_one := {| tx := [cONE]; kd := KValue |}.
Definition t_plus := {| tx := [cPLUS]; kd := KOperator |}.
Definition t_minus := {| tx := [cMINUS]; kd := KOperator |}.

(* sanitize_tokens: "." becomes an operator; python normalisation is an oracle (identity here) *)
Definition sanitize (t : tk) : tk :=     (* a back-quoted `.` (kind NAME) stays a name *)
  if leqb (tx t) [cDOT] && negb (kind_eqb (kd t) KName) then {| tx := tx t; kd := KOperator |} else t.

(* replace_tokens(tokens, "0", [-, 1], kind=VALUE) *)
Definition replace_zero (ts : list tk) : list tk :=
  flat_map (fun t => if kind_eqb (kd t) KValue && leqb (tx t) [cZERO] then [t_minus; t_one] else [t]) ts.

(* Token.split(pattern=single char c, after=True) *)
Fixpoint split_after (c : N) (acc : str) (s : str) : list str :=
  match s with
  | [] => match acc with [] => [] | _ => [acc] end
  | x :: r => if x =? c then (acc ++ [x]) :: split_after c [] r else split_after c (acc ++ [x]) r
  end.
Definition ends_with (c : N) (s : str) : bool := match rev s with x :: _ => x =? c | [] => false end.
Definition contains (c : N) (s : str) : bool := existsb (N.eqb c) s.
Definition is_pm (s : str) : bool := leqb s [cPLUS] || leqb s [cMINUS].

(* insert_tokens_after(tokens, c, [1], kind=OPERATOR, join "+", no_join {+,-}) *)
Fixpoint ins_pieces (c : N) (pieces : list str) (next_outer : option tk) : list tk :=
  match pieces with
  | [] => []
  | p :: rest =>
      let me := {| tx := p; kd := KOperator |} in
      if ends_with c p then
        let next := match rest with q :: _ => Some {| tx := q; kd := KOperator |} | [] => next_outer end in
        let join := match next with
                    | Some n => if negb (is_op n) || negb (is_pm (tx n)) then [t_plus] else []
                    | None => [] end in
        me :: t_one :: join ++ ins_pieces c rest next_outer
      else me :: ins_pieces c rest next_outer
  end.
Fixpoint insert_after (c : N) (ts : list tk) : list tk :=
  match ts with
  | [] => []
  | t :: rest =>
      if is_op t && contains c (tx t)
      then ins_pieces c (split_after c [] (tx t)) (hd_error rest) ++ insert_after c rest
      else t :: insert_after c rest
  end.

(* find_rhs_index: position of the first top-level OPERATOR token whose text is "~" *)
Definition opener_of (c : str) : option str :=
  if leqb c [cRP] then Some [cLP] else if leqb c [cRS] then Some [cLS] else None.
Fixpoint find_rhs (ts : list tk) (ctx : list str) (i : nat) : option nat :=
  match ts with
  | [] => None
  | t :: rest =>
      if kind_eqb (kd t) KContext then
        if leqb (tx t) [cLP] || leqb (tx t) [cLS] then find_rhs rest (tx t :: ctx) (S i)
        else match ctx, opener_of (tx t) with
             | top :: ctx', Some o => if leqb top o then find_rhs rest ctx' (S i) else None
             | _, _ => None
             end
      else match ctx with
           | _ :: _ => find_rhs rest ctx (S i)
           | [] => if is_op t && (match tx t with c :: _ => N.eqb c cTILDE | [] => false end)     (* token.startswith("~"): '~' may be lexed with a following sign *)
                   then Some i else find_rhs rest ctx (S i)
           end
  end.

(* merge_operator_tokens(tokens, symbols={+,-}) *)
Definition in_pm (c : N) := (c =? cPLUS) || (c =? cMINUS).
Definition first_in_pm (s : str) := match s with c :: _ => in_pm c | [] => false end.
Definition last_in_pm (s : str) := match rev s with c :: _ => in_pm c | [] => false end.
Fixpoint merge_ops (ts : list tk) (pooled : option tk) : list tk :=
  match ts with
  | [] => match pooled with Some p => [p] | None => [] end
  | t :: rest =>
      if negb (is_op t) || negb (first_in_pm (tx t)) then
        (match pooled with Some p => [p] | None => [] end) ++ t :: merge_ops rest None
      else match pooled with
           | Some p => let m := {| tx := tx p ++ tx t; kd := KOperator |} in
                       if negb (last_in_pm (tx m)) then m :: merge_ops rest None else merge_ops rest (Some m)
           | None => merge_ops rest (Some t)
           end
  end.

Fixpoint merge_partial (ts : list tk) (pooled : option tk) : list tk :=   (* no final flush: the stream died *)
  match ts with
  | [] => []
  | t :: rest =>
      if negb (is_op t) || negb (first_in_pm (tx t)) then
        (match pooled with Some p => [p] | None => [] end) ++ t :: merge_partial rest None
      else match pooled with
           | Some p => let m := {| tx := tx p ++ tx t; kd := KOperator |} in
                       if negb (last_in_pm (tx m)) then m :: merge_partial rest None else merge_partial rest (Some m)
           | None => merge_partial rest (Some t)
           end
  end.

Definition get_tokens (intercept : bool) (ts0 : list tk) : list tk :=
  let ts := replace_zero (map sanitize ts0) in
  let ts :=
    if intercept then
      let ts1 := insert_after cTILDE ts in
      let ri := match find_rhs ts1 [] 0 with Some i => S i | None => O end in
      (match ri with
       | O => match ts1 with [] => [t_one] | _ => [t_one; t_plus] end
       | _ => firstn ri ts1 end) ++ insert_after cBAR (skipn ri ts1)
    else ts in
  merge_ops ts None.

(* ---------- resolution: collapse sign runs (as coded, including the conditional-expression precedence) ---------- *)
(* find leftmost maximal run of +/- of length >= 2: returns (prefix, run, suffix) *)
Fixpoint take_pm (s : str) : str * str :=
  match s with c :: r => if in_pm c then let '(a, b) := take_pm r in (c :: a, b) else ([], s) | [] => ([], []) end.
Fixpoint find_run (pre : str) (s : str) (fuel : nat) : option (str * str * str) :=
  match fuel with O => None | S f =>
  match s with
  | [] => None
  | c :: r => if in_pm c then
                let '(run, suf) := take_pm s in
                if (2 <=? length run)%nat then Some (pre, run, suf) else find_run (pre ++ run) suf f
              else find_run (pre ++ [c]) r f
  end end.
Definition odd_minus (run : str) : bool := Nat.odd (length (filter (N.eqb cMINUS) run)).
Fixpoint collapse (fixed : bool) (s : str) (fuel : nat) : str :=
  match fuel with O => s | S f =>
  match find_run [] s (S (length s)) with
  | None => s
  | Some (pre, run, suf) =>
      let s' := if fixed then pre ++ [if odd_minus run then cMINUS else cPLUS] ++ suf
                else if odd_minus run then pre ++ [cMINUS] else cPLUS :: suf in
      collapse fixed s' f
  end end.
