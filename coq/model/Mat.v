(* ===== Mat.v : the build path of the materializer over exact rationals (C02, C03, C05, C06, C07, C10, C17, C18, C20) =====
   factor pool evaluation, null discovery and the drop set, _get_scoped_terms with `spanned`,
   _get_scoped_terms_spanned_by_evaled_factors, _simplify_scoped_terms, encoding (level discovery after row dropping,
   full/reduced dummy naming), row-wise Kronecker product, per-term and final dict semantics, recorded structure.
   No proofs in this file. *)
From Coq Require Import List NArith ZArith QArith Qcanon Bool Arith.
Import ListNotations.
Require Scope.
Open Scope N_scope.

Definition str := list N.
Fixpoint leqb (a b : str) : bool :=
  match a, b with [], [] => true | x :: a', y :: b' => (x =? y) && leqb a' b' | _, _ => false end.
Fixpoint lcmp (a b : str) : comparison :=
  match a, b with
  | [], [] => Eq | [], _ => Lt | _, [] => Gt
  | x :: a', y :: b' => match x ?= y with Eq => lcmp a' b' | c => c end
  end.
Definition mem_s (x : str) (l : list str) := existsb (leqb x) l.

(* ---------- inputs ---------- *)
Inductive fkind := FLit | FLookup.
Record factor := { fx : str; fk : fkind }.
Definition term := list factor.
Definition cell := option Qc.                      (* None = NaN / null *)
(* a categorical column optionally carries the declared category list of a pandas `category` dtype *)
Inductive col := CNum (v : list cell) | CCat (v : list (option str)) (declared : option (list str)).
Definition frame := list (str * col).
Inductive na := NaDrop | NaRaise | NaIgnore.
Record cfg := { full_rank : bool; na_action : na; caller_drop : list nat }.

Inductive merr := EEval | ENullRaise | EOther.
Definition res (A : Type) := (A + merr)%type.
Definition bind {A B} (x : res A) (f : A -> res B) : res B := match x with inl a => f a | inr e => inr e end.
Notation "'do' x <- e ; k" := (bind e (fun x => k)) (at level 200, x ident, e at level 100, k at level 200).

(* ---------- factor evaluation ---------- *)
Inductive ev := EvConst (q : Qc) | EvNum (v : list cell) | EvCat (v : list (option str)) (declared : option (list str)).
Fixpoint lookup (d : frame) (n : str) : option col :=
  match d with [] => None | (k, c) :: r => if leqb k n then Some c else lookup r n end.
(* numeric literal "12", "2.5", ".5", "5." -> exact rational *)
Definition is_digit (x : N) := (48 <=? x) && (x <=? 57).
Fixpoint lit_go (s : str) (num : Z) (den : Z) (after_dot : bool) : Z * Z :=
  match s with
  | [] => (num, den)
  | x :: r => if x =? 46 then lit_go r num den true
              else let d := Z.of_N (x - 48) in
                   lit_go r (num * 10 + d)%Z (if after_dot then (den * 10)%Z else den) after_dot
  end.
Definition lit_val (s : str) : Qc := let '(n, d) := lit_go s 0%Z 1%Z false in Q2Qc (Qmake n (Z.to_pos d)).
Definition eval_factor (d : frame) (f : factor) : res ev :=
  match fk f with
  | FLit => inl (EvConst (lit_val (fx f)))
  | FLookup => match lookup d (fx f) with
               | Some (CNum v) => inl (EvNum v)
               | Some (CCat v dl) => inl (EvCat v dl)
               | None => inr EEval
               end
  end.
Fixpoint null_positions {A} (v : list (option A)) (i : nat) : list nat :=
  match v with [] => [] | None :: r => i :: null_positions r (S i) | Some _ :: r => null_positions r (S i) end.
Definition nulls_of (e : ev) : list nat :=
  match e with EvConst _ => [] | EvNum v => null_positions v 0 | EvCat v _ => null_positions v 0 end.

Definition memn (i : nat) (l : list nat) := existsb (Nat.eqb i) l.
Fixpoint keep_rows {A} (v : list A) (drop : list nat) (i : nat) : list A :=
  match v with [] => [] | x :: r => if memn i drop then keep_rows r drop (S i) else x :: keep_rows r drop (S i) end.

(* ---------- scoped terms (rank reduction) ---------- *)
Definition sfac := Scope.sfac.                       (* (factor expression, reduced) *)
Definition sf_expr (f : sfac) : str := fst f.
Definition sf_red (f : sfac) : bool := snd f.
Record sterm := { st_f : list sfac; st_scale : Qc }.
Definition sf_eqb (a b : sfac) := Scope.sf_eqb a b.
Definition mem_sf x (t : list sfac) := existsb (sf_eqb x) t.
Definition st_eqb (a b : sterm) :=
  forallb (fun x => mem_sf x (st_f b)) (st_f a) && forallb (fun x => mem_sf x (st_f a)) (st_f b).
Definition mem_st x (ts : list sterm) := existsb (st_eqb x) ts.
Definition sdiff (a b : list sfac) := filter (fun x => negb (mem_sf x b)) a.
Fixpoint dedup_sf (l : list sfac) (seen : list sfac) : list sfac :=
  match l with [] => [] | x :: r => if mem_sf x seen then dedup_sf r seen else x :: dedup_sf r (x :: seen) end.
Definition mk_st (fs : list sfac) (sc : Qc) : sterm := {| st_f := dedup_sf fs []; st_scale := sc |}.

Definition add_term (ts : list sterm) (t : sterm) := if mem_st t ts then ts else ts ++ [t].
Definition remove_term (ts : list sterm) (t : sterm) := filter (fun x => negb (st_eqb x t)) ts.
(* _simplify_scoped_terms: the algorithm acts on the factor sets only (equality, hashing, the merge rule and the sort key all
   ignore the scale), so it is the function [Scope.simplify]; every scoped term of one term's span carries that term's
   literal scale, and a merged term is given `scoped_term.scale`, i.e. that same scale. *)
Definition simplify (fuel : nat) (ts : list sterm) : list sterm :=
  let sc := match ts with t :: _ => st_scale t | [] => Q2Qc 1 end in
  map (fun fs => {| st_f := fs; st_scale := sc |}) (Scope.simplify fuel (map st_f ts)).
Definition nred (ts : list sterm) := Scope.nred (map st_f ts).

(* itertools.product over per-factor option lists; None = "1" (factor omitted) *)
Fixpoint prod_opts (opts : list (list (option sfac))) : list (list (option sfac)) :=
  match opts with [] => [[]] | o :: r => flat_map (fun x => map (cons x) (prod_opts r)) o end.
Fixpoint somes {A} (l : list (option A)) : list A := match l with [] => [] | Some x :: r => x :: somes r | None :: r => somes r end.

Definition spanned_by (evs : list (factor * ev)) : list sterm :=
  let scale := fold_left (fun s fe => match snd fe with EvConst q => (s * q)%Qc | _ => s end) evs (Q2Qc 1) in
  let opts := flat_map (fun fe => match snd fe with
                                  | EvConst _ => []
                                  | EvCat _ _ => [[Some (fx (fst fe), true); None]]
                                  | EvNum _ => [[Some (fx (fst fe), false)]]
                                  end) evs in
  let all := map (fun p => mk_st (somes p) scale) (prod_opts opts) in
  (* OrderedSet: de-duplicate *)
  fold_left add_term all [].

Definition const_scale (evs : list (factor * ev)) : Qc :=
  fold_left (fun s fe => match snd fe with EvConst q => (s * q)%Qc | _ => s end) evs (Q2Qc 1).
Definition unreduced_term (evs : list (factor * ev)) : sterm :=
  mk_st (flat_map (fun fe => match snd fe with EvConst _ => [] | _ => [(fx (fst fe), false)] end) evs) (const_scale evs).
(* a term with a literal 0 factor spans nothing *)
Definition has_zero (evs : list (factor * ev)) : bool :=
  existsb (fun fe => match snd fe with EvConst q => Qc_eq_bool q (Q2Qc 0) | _ => false end) evs.

(* ---------- encoding and columns ---------- *)
Definition column := list cell.
Definition cmul (a b : cell) : cell := match a, b with Some x, Some y => Some (x * y)%Qc | _, _ => None end.
Definition vmul (a b : column) : column := map (fun p => cmul (fst p) (snd p)) (combine a b).
Definition vscale (s : Qc) (a : column) : column := map (fun x => match x with Some v => Some (s * v)%Qc | None => None end) a.

Fixpoint ins_s (x : str) (l : list str) := match l with [] => [x] | y :: r => match lcmp x y with Gt => y :: ins_s x r | Eq => l | Lt => x :: l end end.
Definition levels_of (v : list (option str)) : list str := fold_right (fun o acc => match o with Some s => ins_s s acc | None => acc end) [] v.
Definition indicator (v : list (option str)) (lv : str) : column :=
  map (fun o => match o with Some s => if leqb s lv then Some (Q2Qc 1) else Some (Q2Qc 0) | None => Some (Q2Qc 0) end) v.

Definition s_intercept : str := [73;110;116;101;114;99;101;112;116].
Definition name_full (e lv : str) : str := e ++ [91] ++ lv ++ [93].                 (* {name}[{field}] *)
Definition name_red (e lv : str) : str := e ++ [91;84;46] ++ lv ++ [93].           (* {name}[T.{field}] *)

(* encoded factor: ordered (name, column) pairs *)
Definition encode (e : str) (v : ev) (reduced : bool) (drop : list nat) : list (str * column) :=
  match v with
  | EvConst _ => []
  | EvNum c => [(e, keep_rows c drop 0)]
  | EvCat c declared =>
      let kept := keep_rows c drop 0 in
      let lvs := match declared with Some l => l | None => levels_of kept end in
      if reduced then map (fun lv => (name_red e lv, indicator kept lv)) (tl lvs)
      else map (fun lv => (name_full e lv, indicator kept lv)) lvs
  end.

Fixpoint lookup_ev (evs : list (str * ev)) (e : str) : option ev :=
  match evs with [] => None | (k, v) :: r => if leqb k e then Some v else lookup_ev r e end.

(* row-wise Kronecker product, first factor varying fastest, names joined by ':' *)
Fixpoint kron (fs : list (list (str * column))) : list (str * column) :=
  match fs with
  | [] => []
  | [f] => f
  | f :: rest => flat_map (fun rc => map (fun fc => (fst fc ++ [58] ++ fst rc, vmul (snd fc) (snd rc))) f) (kron rest)
  end.

(* dict semantics: later equal key overwrites the value, keeps the first position *)
Fixpoint dict_set (d : list (str * column)) (k : str) (v : column) : list (str * column) :=
  match d with [] => [(k, v)] | (k', v') :: r => if leqb k' k then (k', v) :: r else (k', v') :: dict_set r k v end.
Definition dict_update (d kv : list (str * column)) := fold_left (fun acc p => dict_set acc (fst p) (snd p)) kv d.

Definition ones (n : nat) : column := repeat (Some (Q2Qc 1)) n.

(* _get_scoped_terms: for each term, the scoped terms it contributes, threading the set `spanned` *)
Definition evf_of (evs : list (str * ev)) (t : term) : list (factor * ev) :=
  flat_map (fun f => match lookup_ev evs (fx f) with Some v => [(f, v)] | None => [] end) t.
Definition scope_step (fr : bool) (evs : list (str * ev)) (acc : list (list sterm) * list sterm) (t : term) : list (list sterm) * list sterm :=
  let '(done, spanned) := acc in
  let evf := evf_of evs t in
  match evf with
  | [] => (done ++ [[]], spanned)
  | _ =>
    if has_zero evf then (done ++ [[]], spanned) else
    if fr then
      let span := filter (fun s => negb (mem_st s spanned)) (spanned_by evf) in
      (done ++ [simplify (S (nred span)) span], spanned ++ span)
    else (done ++ [[unreduced_term evf]], spanned)
  end.
Definition get_scoped_terms (fr : bool) (evs : list (str * ev)) (terms : list term) : list (list sterm) :=
  fst (fold_left (scope_step fr evs) terms ([], [])).

Record out := { o_names : list str; o_cols : list column; o_drop : list nat; o_struct : list (list (list (str * bool) * Qc));
                o_term_cols : list (list str) (* the `columns` entry of each structure row *) }.

Fixpoint ins_n (x : nat) (l : list nat) := match l with [] => [x] | y :: r => if (x <? y)%nat then x :: l else if (x =? y)%nat then l else y :: ins_n x r end.

(* ---------- step 1: the factor pool, evaluation, nulls, the drop set ---------- *)
Definition pool_of (terms : list term) : list factor :=
  fold_left (fun acc f => if mem_s (fx f) (map fx acc) then acc else acc ++ [f]) (concat terms) [].
Fixpoint eval_pool (d : frame) (l : list factor) (acc : list (str * ev)) : res (list (str * ev)) :=
  match l with
  | [] => inl (rev acc)
  | f :: r => match eval_factor d f with inl v => eval_pool d r ((fx f, v) :: acc) | inr e => inr e end
  end.
Definition all_nulls (evs : list (str * ev)) : list nat := flat_map (fun p => nulls_of (snd p)) evs.
(* the set the caller passed in is extended in place and then sorted *)
Definition drop_set (c : cfg) (evs : list (str * ev)) : list nat :=
  match na_action c with
  | NaDrop => fold_right ins_n [] (caller_drop c ++ all_nulls evs)
  | _ => fold_right ins_n [] (caller_drop c)
  end.

(* ---------- step 3: columns of one scoped term ---------- *)
Definition cols_of (evs : list (str * ev)) (drop : list nat) (nkeep : nat) (st : sterm) : list (str * column) :=
  match st_f st with
  | [] => [(s_intercept, vscale (st_scale st) (ones nkeep))]
  | fs => map (fun nc => (fst nc, vscale (st_scale st) (snd nc)))
              (kron (map (fun sf => match lookup_ev evs (sf_expr sf) with
                                    | Some v => encode (sf_expr sf) v (sf_red sf) drop
                                    | None => [] end) fs))
  end.

(* steps 2-4 for one term list, given the evaluated factor pool and the (joint) drop set *)
Definition assemble (evs : list (str * ev)) (drop : list nat) (nrows : nat) (fr : bool) (terms : list term) : out :=
  let nkeep := (nrows - length drop)%nat in
  let per_term := get_scoped_terms fr evs terms in
  (* a dict per term, then one dict for the frame *)
  let term_cols := map (fun sts => fold_left (fun dct st => dict_update dct (cols_of evs drop nkeep st)) sts []) per_term in
  let final := fold_left dict_update term_cols [] in
  {| o_names := map fst final; o_cols := map snd final; o_drop := drop;
     o_struct := map (fun sts => map (fun st => (map (fun f => (sf_expr f, sf_red f)) (st_f st), st_scale st)) sts) per_term;
     o_term_cols := map (map fst) term_cols |}.

Definition build (d : frame) (nrows : nat) (c : cfg) (terms : list term) : res out :=
  do evs <- eval_pool d (pool_of terms) [];
  match na_action c, all_nulls evs with
  | NaRaise, _ :: _ => inr ENullRaise
  | _, _ => inl (assemble evs (drop_set c evs) nrows (full_rank c) terms)
  end.

(* structured formulas: the factors of ALL parts are pooled and evaluated once, one joint drop set, then every part is assembled
   from the shared pool (FormulaMaterializer.get_model_matrix steps 0-3) *)
Definition build_parts (d : frame) (nrows : nat) (c : cfg) (parts : list (list term)) : res (list out) :=
  do evs <- eval_pool d (pool_of (concat parts)) [];
  match na_action c, all_nulls evs with
  | NaRaise, _ :: _ => inr ENullRaise
  | _, _ => inl (map (assemble evs (drop_set c evs) nrows (full_rank c)) parts)
  end.

(* ---------- required variables (C17) ---------- *)
(* Formula.required_variables for formulas of looked-up names: the name of every LOOKUP factor of every term *)
Definition required_vars (terms : list term) : list str :=
  flat_map (fun f => match fk f with FLookup => [fx f] | FLit => [] end) (concat terms).
(* the data restricted to a set of columns / with one column taken away *)
Definition restrict (d : frame) (names : list str) : frame := filter (fun p => mem_s (fst p) names) d.
Definition without (d : frame) (v : str) : frame := filter (fun p => negb (leqb (fst p) v)) d.

