(* ===== SpecMeta.v : the index metadata a materialised ModelSpec derives from its structure (C10) =====
   structure row = (factor expressions of the term in written order, column names, variables used by the term).
   No proofs in this file. *)
From Coq Require Import List NArith Bool Arith.
Import ListNotations.
Require Import StrOrder Struct.
Open Scope nat_scope.

Record srow := { r_factors : list sstr; r_cols : list sstr; r_vars : list sstr }.

(* column_names / column_indices *)
Definition column_names (rows : list srow) : list sstr := concat (map r_cols rows).
Fixpoint index_of (x : sstr) (l : list sstr) (i : nat) : option nat :=
  match l with [] => None | y :: r => if keqb x y then Some i else index_of x r (S i) end.
(* dict comprehension {name: i}: a later duplicate name overwrites *)
Definition column_index (rows : list srow) (name : sstr) : option nat :=
  match index_of name (rev (column_names rows)) 0 with
  | Some j => Some (length (column_names rows) - 1 - j)
  | None => None
  end.

(* term_indices: consecutive ranges in structure order; the dict is keyed by Term, whose identity is the SORTED factor key *)
Fixpoint ranges (lens : list nat) (start : nat) : list (list nat) :=
  match lens with [] => [] | n :: r => seq start n :: ranges r (start + n) end.
Definition tkey (fs : list sstr) : list sstr := ssort fs.
Fixpoint keyl_eqb (a b : list sstr) : bool :=
  match a, b with [], [] => true | x :: a', y :: b' => keqb x y && keyl_eqb a' b' | _, _ => false end.
Fixpoint tdget {V} (k : list sstr) (d : list (list sstr * V)) : option V :=
  match d with [] => None | (k', v) :: r => if keyl_eqb k k' then Some v else tdget k r end.
Fixpoint tdset {V} (k : list sstr) (v : V) (d : list (list sstr * V)) : list (list sstr * V) :=
  match d with [] => [(k, v)] | (k', v') :: r => if keyl_eqb k k' then (k', v) :: r else (k', v') :: tdset k v r end.
Definition term_indices (rows : list srow) : list (list sstr * list nat) :=
  fold_left (fun d p => tdset (tkey (r_factors (fst p))) (snd p) d)
            (combine rows (ranges (map (fun r => length (r_cols r)) rows) 0)) [].
(* lookup by Term object, or by the printed form with the factors in ANY order (Term.__eq__ sorts both sides) *)
Definition lookup_term (rows : list srow) (fs : list sstr) : option (list nat) := tdget (tkey fs) (term_indices rows).
(* term_slices: slice(first, last+1), or slice(0,0) for a term without columns *)
Definition slice_of (ix : list nat) : nat * nat := match ix with [] => (0, 0) | a :: _ => (a, S (last ix a)) end.

(* variable_indices: sorted union of the indices of the terms that use the variable *)
Fixpoint ins_nat (x : nat) (l : list nat) := match l with [] => [x] | y :: r => if x <? y then x :: l else if x =? y then l else y :: ins_nat x r end.
Definition uses (v : sstr) (r : srow) : bool := existsb (keqb v) (r_vars r).
Definition variable_indices (rows : list srow) (v : sstr) : list nat :=
  fold_right ins_nat []
    (flat_map (fun r => if uses v r then match lookup_term rows (r_factors r) with Some ix => ix | None => [] end else []) rows).

(* ModelSpec.subset(terms): term_structure = {s.term: s for s in structure if s.term in chosen} (a dict keyed by Term identity), then
   structure = [term_structure[t] for t in chosen]: the rows of the chosen terms, IN THE ORDER CHOSEN ("the model spec column ordering
   will follow the ordering of the terms in terms_spec"); a chosen term the spec does not have is an error (None) *)
Definition row_table (rows : list srow) : list (list sstr * srow) :=
  fold_left (fun d p => tdset (tkey (r_factors (fst p))) (snd p) d) (combine rows rows) [].
Fixpoint subset (rows : list srow) (chosen : list (list sstr)) : option (list srow) :=
  match chosen with
  | [] => Some []
  | c :: r => match tdget (tkey c) (row_table rows), subset rows r with Some x, Some xs => Some (x :: xs) | _, _ => None end
  end.
(* ModelSpec.get_term_indices(terms): the positions of the chosen terms' columns, in the order chosen *)
Fixpoint get_term_indices (rows : list srow) (chosen : list (list sstr)) : option (list nat) :=
  match chosen with
  | [] => Some []
  | c :: r => match lookup_term rows c, get_term_indices rows r with Some x, Some xs => Some (x ++ xs) | _, _ => None end
  end.
