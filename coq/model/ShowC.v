(* ===== ShowC.v ===== *)
From Coq Require Import List NArith ZArith QArith Qcanon Bool Arith.
Import ListNotations.
Require Import Tok Cons.
Open Scope N_scope.
Definition qq (n : Z) (d : positive) : Qc := Q2Qc (Qmake n d).
Fixpoint qseqb (a b : list Qc) := match a, b with [], [] => true | x :: a', y :: b' => Qc_eq_bool x y && qseqb a' b' | _, _ => false end.
Fixpoint rowseqb (a b : list (list Qc * Qc)) := match a, b with [], [] => true
  | (r1, c1) :: a', (r2, c2) :: b' => qseqb r1 r2 && Qc_eq_bool c1 c2 && rowseqb a' b' | _, _ => false end.
Definition agree (x y : res (list (list Qc * Qc))) := match x, y with inl a, inl b => rowseqb a b | inr a, inr b => Nat.eqb a b | _, _ => false end.
Definition ccase := (str * list str * res (list (list Qc * Qc)))%type.
Fixpoint chk (cl : N -> cls) (cs : list ccase) (i : nat) : nat * list nat :=
  match cs with [] => (O, []) | (s, vars, exp) :: r => let '(m, fl) := chk cl r (S i) in
    if agree (compile cl vars s) exp then (m, fl) else (S m, i :: fl) end.
