(* ===== ShowC.v : cases for the constraint compiler ===== *)
From Coq Require Import List NArith ZArith QArith Qcanon Bool Arith.
Import ListNotations.
Require Import Tok Classify Cons.
Open Scope N_scope.
Definition qq (n : Z) (d : positive) : Qc := Q2Qc (Qmake n d).
Fixpoint qs_eqb (a b : list Qc) : bool := match a, b with [], [] => true | x :: r1, y :: r2 => Qc_eq_bool x y && qs_eqb r1 r2 | _, _ => false end.
Fixpoint rows_eqb (a b : list (list Qc * Qc)) : bool :=
  match a, b with [], [] => true | (r1, c1) :: a', (r2, c2) :: b' => qs_eqb r1 r2 && Qc_eq_bool c1 c2 && rows_eqb a' b' | _, _ => false end.
(* expectation: the rows, or an error class *)
Record ccase := { c_vars : list str; c_src : str; c_expect : list (list Qc * Qc) + nat }.
Definition ccheck (extra : list (N * (bool * bool * bool))) (c : ccase) : bool :=
  match compile (classify_with extra) (c_vars c) (c_src c), c_expect c with
  | inl rows, inl exp => rows_eqb rows exp
  | inr e, inr k => Nat.eqb e k
  | _, _ => false
  end.
Fixpoint chk_cons (extra : list (N * (bool * bool * bool))) (cs : list ccase) (i : nat) : nat * list nat :=
  match cs with [] => (O, []) | c :: r => let '(m, fl) := chk_cons extra r (S i) in if ccheck extra c then (m, fl) else (S m, i :: fl) end.
