(* ===== ShowSpline.v : cases for bs / cr / cc: implementation floats (as exact fractions) against the exact models ===== *)
From Coq Require Import List ZArith QArith Qabs Bool Arith.
Import ListNotations.
Require Import BSpline CubicSpline.
Open Scope Q_scope.

Definition frq (v : Z * positive) : Q := fst v # snd v.
Definition tolq : Q := 1 # 16777216.            (* 2^-24 *)
Definition nearq (m v : Q) : bool := Qle_bool (Qabs (v - m)) (tolq * (Qabs m + 1)).
Fixpoint all2 {A B} (f : A -> B -> bool) (a : list A) (b : list B) : bool :=
  match a, b with [] , [] => true | x :: a', y :: b' => f x y && all2 f a' b' | _, _ => false end.
Definition row_ok (m : option (option (list Q))) (o : option (list (Z * positive))) : bool :=
  match m, o with
  | Some None, None => true
  | Some (Some cells), Some vs => all2 (fun c v => nearq c (frq v)) cells vs
  | _, _ => false
  end.
Definition raises (m : option (option (list Q))) : bool := match m with None => true | _ => false end.

(* ---- basis_spline ---- *)
Record bscase := { b_knots : list (Z * positive); b_degree : nat; b_intercept : bool; b_mode : extrap;
                   b_xs : list (option (Z * positive)); b_raises : bool; b_rows : list (option (list (Z * positive)));
                   b_sorted : list (Z * positive); b_nknots : option nat }.
Definition bscheck (c : bscase) : bool :=
  let kn := map frq (b_knots c) in
  let rows := map (fun o => match o with Some x => bs_row kn (b_degree c) (b_intercept c) (b_mode c) (frq x) | None => Some None end) (b_xs c) in
  knots_ok kn (b_degree c) &&
  (if b_raises c then existsb raises rows
   else negb (existsb raises rows) && all2 row_ok rows (b_rows c)) &&
  match b_nknots c with
  | None => true
  | Some nk => let L := length kn in
               all2 nearq (pad_knots (kfun kn (b_degree c)) (df_knots (map frq (b_sorted c)) nk) (kfun kn (L - b_degree c - 1)) (b_degree c)) kn
  end.
Fixpoint chk_bs (cs : list bscase) (i : nat) : nat * list nat :=
  match cs with [] => (O, []) | c :: r => let '(m, fl) := chk_bs r (S i) in if bscheck c then (m, fl) else (S m, i :: fl) end.

(* ---- cubic regression splines ---- *)
Record cscase := { c_knots : list (Z * positive); c_cyclic : bool; c_mode : extrap;
                   c_xs : list (option (Z * positive)); c_raises : bool; c_rows : list (option (list (Z * positive)));
                   c_F : list (list (Z * positive)); c_means : option (list (Z * positive));
                   c_sorted : list (Z * positive); c_ninner : option nat }.
Definition cscheck (c : cscase) : bool :=
  let kn := map frq (c_knots c) in
  match (if c_cyclic c then cyclic_F kn else natural_F kn) with
  | None => false
  | Some Fl =>
      let F := mfun Fl in
      let n := if c_cyclic c then (length kn - 1)%nat else length kn in
      let rows := map (fun o => match o with Some x => cs_row kn F (c_cyclic c) (c_mode c) (frq x) | None => Some None end) (c_xs c) in
      strictly_increasing kn && Nat.leb 2 (length kn) &&
      (if c_cyclic c then cyclic_F_ok kn F else natural_F_ok kn F) &&
      all2 (fun mr ir => all2 (fun m v => nearq m (frq v)) mr ir) Fl (c_F c) &&
      (if c_raises c then existsb raises rows else negb (existsb raises rows) && all2 row_ok rows (c_rows c)) &&
      match c_means c with
      | None => true
      | Some ms => all2 (fun m v => nearq m (frq v))
                     (col_means (flat_map (fun r => match r with Some (Some cells) => [cells] | _ => [] end) rows) n) ms
      end &&
      match c_ninner c with
      | None => true
      | Some ni => all2 nearq (Kq kn 0 :: df_knots (map frq (c_sorted c)) ni ++ [Kq kn (length kn - 1)]) kn
      end
  end.
Fixpoint chk_cs (cs : list cscase) (i : nat) : nat * list nat :=
  match cs with [] => (O, []) | c :: r => let '(m, fl) := chk_cs r (S i) in if cscheck c then (m, fl) else (S m, i :: fl) end.
