(* ===== Scale.v : transforms/scale.py -- scale() and center() with state-first statistics (C13) =====
   Exact rationals; numpy.sqrt is kept symbolic: a recorded scale is either the ROOT of a recorded rational (computed from data) or an
   explicitly given number.  A state key that is absent is None; `Some None` is the recorded Python None.  One column (numpy works
   column-wise with axis=0).  No proofs here. *)
From Coq Require Import List QArith Qcanon Arith Bool.
Import ListNotations.
Require Import Poly.
Open Scope Qc_scope.

Inductive flag := FBool (b : bool) | FVal (v : Qc).          (* the `center` / `scale` argument: a bool or an explicit number *)
Inductive sc := SRoot (V : Qc) | SVal (v : Qc).              (* sqrt(V) | v *)
Record sstate := { s_ddof : option Qc; s_center : option (option Qc); s_scale : option (option sc) }.
Definition s_empty : sstate := {| s_ddof := None; s_center := None; s_scale := None |}.

Fixpoint qn (n : nat) : Qc := match n with O => 0 | S k => qn k + 1 end.
Definition mean (xs : list Qc) : Qc := sumq xs / qn (length xs).

(* scale(data, center, scale, ddof, _state): new state and, per row, the centred numerator with the divisor to apply *)
Definition scale_step (st : sstate) (cflag sflag : flag) (ddof : Qc) (data : list Qc) : sstate * list (Qc * option sc) :=
  let dd := match s_ddof st with Some d => d | None => ddof end in
  let c := match s_center st with
           | Some c => c
           | None => match cflag with FBool true => Some (mean data) | FBool false => None | FVal v => Some v end
           end in
  let data1 := match c with Some c => map (fun x => x - c) data | None => data end in
  let s := match s_scale st with
           | Some s => s
           | None => match sflag with
                     | FBool true => Some (SRoot (sumq (map (fun m => m * m) data1) / (qn (length data1) - dd)))
                     | FBool false => None
                     | FVal v => Some (SVal v)
                     end
           end in
  ({| s_ddof := Some dd; s_center := Some c; s_scale := Some s |}, map (fun m => (m, s)) data1).
(* center(data, _state) = scale(data, scale=False, _state) *)
Definition center_step (st : sstate) (data : list Qc) := scale_step st (FBool true) (FBool false) 1 data.
