(* ===== Mat2.v ===== *)
From Coq Require Import List NArith ZArith QArith Qcanon Bool Arith.
Import ListNotations.
Require Import Mat.
Open Scope N_scope.

(* ---------- what a materialised spec records ---------- *)
Inductive ekind := KNum | KCat (levels : list str).
Record spec := {
  sp_terms : list term;
  sp_struct : list (list sterm * list str);          (* per term: scoped terms, column names *)
  sp_enc : list (str * ekind);                       (* encoder_state: kind (+ categories) per encoded factor *)
  sp_cfg : cfg }.

Fixpoint enc_lookup (e : list (str * ekind)) (k : str) : option ekind :=
  match e with [] => None | (k', v) :: r => if leqb k' k then Some v else enc_lookup r k end.

(* encoding with an optional pinned level list *)
Definition encode_with (e : str) (v : ev) (reduced : bool) (drop : list nat) (pinned : option (list str)) : list (str * column) :=
  match v with
  | EvConst _ => []
  | EvNum c => [(e, keep_rows c drop 0)]
  | EvCat c =>
      let kept := keep_rows c drop 0 in
      let lvs := match pinned with Some l => l | None => levels_of kept end in
      if reduced then map (fun lv => (name_red e lv, indicator kept lv)) (tl lvs)
      else map (fun lv => (name_full e lv, indicator kept lv)) lvs
  end.

(* build, additionally returning the spec (same computation as Mat.build; structure + encoder state recorded) *)
Definition enc_of (evs : list (str * ev)) (drop : list nat) (used : list str) : list (str * ekind) :=
  flat_map (fun p => if mem_s (fst p) used then
                       match snd p with
                       | EvNum _ => [(fst p, KNum)]
                       | EvCat c => [(fst p, KCat (levels_of (keep_rows c drop 0)))]
                       | EvConst _ => [] end
                     else []) evs.

Definition zeros (n : nat) : column := repeat (Some (Q2Qc 0)) n.

Inductive rerr := REval | RNull | RTooMany | RInsufficient | RInconsistent | ROther.

Definition enforce (generated : list (str * column)) (target : list str) (nkeep : nat) : (list (str * column)) + rerr :=
  if (length target <? length generated)%nat then inr RTooMany
  else if (length generated <? length target)%nat then
    match generated with
    | [] => inl (map (fun n => (n, zeros nkeep)) target)
    | [(_, c)] => inl (map (fun n => (n, c)) target)
    | _ => inr RInsufficient
    end
  else if forallb (fun n => mem_s n (map fst generated)) target && forallb (fun n => mem_s n target) (map fst generated)
       then inl (map (fun n => (n, match find (fun p => leqb (fst p) n) generated with Some p => snd p | None => [] end)) target)
       else inr RInconsistent.

Definition replay (sp : spec) (d : frame) (nrows : nat) (caller : list nat) : (list str * list column * list nat) + rerr :=
  let c := sp_cfg sp in
  let pool := fold_left (fun acc f => if mem_s (fx f) (map fx acc) then acc else acc ++ [f]) (concat (sp_terms sp)) [] in
  match (fix go (l : list factor) (acc : list (str * ev)) : option (list (str * ev)) :=
           match l with [] => Some (rev acc)
           | f :: r => match eval_factor d f with inl v => go r ((fx f, v) :: acc) | inr _ => None end end) pool [] with
  | None => inr REval
  | Some evs =>
    let all_nulls := flat_map (fun p => nulls_of (snd p)) evs in
    match na_action c, all_nulls with
    | NaRaise, _ :: _ => inr RNull
    | _, _ =>
      let drop := match na_action c with
                  | NaDrop => fold_right ins_n [] (caller ++ all_nulls)
                  | _ => fold_right ins_n [] caller end in
      let nkeep := (nrows - length drop)%nat in
      let cols_of (st : sterm) : list (str * column) :=
        match st_f st with
        | [] => [(s_intercept, vscale (st_scale st) (ones nkeep))]
        | fs => map (fun nc => (fst nc, vscale (st_scale st) (snd nc)))
                    (kron (map (fun sf => match lookup_ev evs (sf_expr sf) with
                                          | Some v => encode_with (sf_expr sf) v (sf_red sf) drop
                                                        (match enc_lookup (sp_enc sp) (sf_expr sf) with Some (KCat l) => Some l | _ => None end)
                                          | None => [] end) fs))
        end in
      (fix go (l : list (list sterm * list str)) (acc : list (str * column)) : (list str * list column * list nat) + rerr :=
         match l with
         | [] => inl (map fst acc, map snd acc, drop)
         | (sts, target) :: r =>
             let gen := fold_left (fun dct st => dict_update dct (cols_of st)) sts [] in
             match enforce gen target nkeep with
             | inr e => inr e
             | inl cols => go r (dict_update acc cols)
             end
         end) (sp_struct sp) []
    end
  end.
