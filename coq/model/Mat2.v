(* ===== Mat2.v : reusing a materialised spec on new data (C04, C09, C10 subset, C07) =====
   factor re-evaluation, the recorded-kind guard, the drop set, rehydrated scoped terms, encoding with the recorded category
   list pinned (absent levels -> zero columns, unseen levels -> all-zero rows), _enforce_structure. No proofs in this file. *)
From Coq Require Import List NArith ZArith QArith Qcanon Bool Arith.
Import ListNotations.
Require Import Mat.
Open Scope N_scope.

(* ---------- what a materialised spec records ---------- *)
Inductive ekind := KNum | KCat (levels : list str).
Record spec := {
  sp_terms : list term;
  sp_struct : list (list sterm * list str);          (* per term: scoped terms, column names *)
  sp_enc : list (str * ekind);                       (* encoder_state: kind (+ categories) per encoded factor *)
  sp_cfg : cfg }.

Fixpoint enc_lookup (e : list (str * ekind)) (k : str) : option ekind :=
  match e with [] => None | (k', v) :: r => if leqb k' k then Some v else enc_lookup r k end.

(* encoding with an optional pinned level list (the recorded categories win over everything else) *)
Definition encode_with (e : str) (v : ev) (reduced : bool) (drop : list nat) (pinned : option (list str)) : list (str * column) :=
  match v with
  | EvConst _ => []
  | EvNum c => [(e, keep_rows c drop 0)]
  | EvCat c declared =>
      let kept := keep_rows c drop 0 in
      let lvs := match pinned with Some l => l | None => match declared with Some l => l | None => levels_of kept end end in
      if reduced then map (fun lv => (name_red e lv, indicator kept lv)) (tl lvs)
      else map (fun lv => (name_full e lv, indicator kept lv)) lvs
  end.

Definition zeros (n : nat) : column := repeat (Some (Q2Qc 0)) n.

Inductive rerr := REval | RNull | RTooMany | RInsufficient | RInconsistent | RKind | ROther.

(* _enforce_structure for one term *)
Definition enforce (generated : list (str * column)) (target : list str) (nkeep : nat) : (list (str * column)) + rerr :=
  if (length target <? length generated)%nat then inr RTooMany
  else if (length generated <? length target)%nat then
    match generated with
    | [] => inl (map (fun n => (n, zeros nkeep)) target)
    | [(_, c)] => inl (map (fun n => (n, c)) target)
    | _ => inr RInsufficient
    end
  else if forallb (fun n => mem_s n (map fst generated)) target && forallb (fun n => mem_s n target) (map fst generated)
       then inl (map (fun n => (n, match find (fun p => leqb (fst p) n) generated with Some p => snd p | None => [] end)) target)
       else inr RInconsistent.

(* the guard of _evaluate_factor: a factor whose kind differs from the recorded one is an encoding error *)
Definition kind_ok (enc : list (str * ekind)) (p : str * ev) : bool :=
  match enc_lookup enc (fst p), snd p with
  | Some KNum, EvCat _ _ => false
  | Some (KCat _), EvNum _ => false
  | _, _ => true
  end.

Definition rcols_of (sp : spec) (evs : list (str * ev)) (drop : list nat) (nkeep : nat) (st : sterm) : list (str * column) :=
  match st_f st with
  | [] => [(s_intercept, vscale (st_scale st) (ones nkeep))]
  | fs => map (fun nc => (fst nc, vscale (st_scale st) (snd nc)))
              (kron (map (fun sf => match lookup_ev evs (sf_expr sf) with
                                    | Some v => encode_with (sf_expr sf) v (sf_red sf) drop
                                                  (match enc_lookup (sp_enc sp) (sf_expr sf) with Some (KCat l) => Some l | _ => None end)
                                    | None => [] end) fs))
  end.

Fixpoint replay_terms (sp : spec) (evs : list (str * ev)) (drop : list nat) (nkeep : nat)
                      (l : list (list sterm * list str)) (acc : list (str * column)) : (list (str * column)) + rerr :=
  match l with
  | [] => inl acc
  | (sts, target) :: r =>
      let gen := fold_left (fun dct st => dict_update dct (rcols_of sp evs drop nkeep st)) sts [] in
      match enforce gen target nkeep with
      | inr e => inr e
      | inl cols => replay_terms sp evs drop nkeep r (dict_update acc cols)
      end
  end.

Definition replay (sp : spec) (d : frame) (nrows : nat) (caller : list nat) : (list str * list column * list nat) + rerr :=
  let c := {| full_rank := full_rank (sp_cfg sp); na_action := na_action (sp_cfg sp); caller_drop := caller |} in
  match eval_pool d (pool_of (sp_terms sp)) [] with
  | inr _ => inr REval
  | inl evs =>
    if negb (forallb (kind_ok (sp_enc sp)) evs) then inr RKind else
    match na_action c, all_nulls evs with
    | NaRaise, _ :: _ => inr RNull
    | _, _ =>
      let drop := drop_set c evs in
      let nkeep := (nrows - length drop)%nat in
      match replay_terms sp evs drop nkeep (sp_struct sp) [] with
      | inr e => inr e
      | inl final => inl (map fst final, map snd final, drop)
      end
    end
  end.

(* ---------- the data-mismatch warning of encode_contrasts ---------- *)
(* the values of a categorical-at-fit factor that are not among its recorded levels (a DataMismatchWarning is issued iff there is one) *)
Definition unseen_in (sp : spec) (d : frame) : list (str * str) :=
  flat_map (fun kv => match snd kv, lookup d (fst kv) with
                      | KCat lvs, Some (CCat v _) => map (fun s => (fst kv, s)) (filter (fun s => negb (mem_s s lvs)) (somes v))
                      | _, _ => []
                      end) (sp_enc sp).
Definition warns (sp : spec) (d : frame) : bool := match unseen_in sp d with [] => false | _ => true end.
