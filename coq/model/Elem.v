(* ===== Elem.v : the elementwise functions preloaded into every formula (transforms/__init__.py TRANSFORMS), denoted over the reals =====
   The table `GenTransforms.transforms` is regenerated from /repo on every run: numpy ufuncs are recorded by their ufunc name, lambdas of the
   shape `x ** c` / `c ** x` by shape and constant.  `denote` maps a table row to the real function it computes (numpy's ufuncs are trusted to
   compute the function they are named after -- checked on the implementation against an independent evaluation). *)
From Coq Require Import List NArith ZArith Reals Bool.
Import ListNotations.
Require Import GenTransforms.
Open Scope R_scope.

Definition Rlog (b x : R) : R := ln x / ln b.
Definition str_eqb (a b : list N) : bool := if list_eq_dec N.eq_dec a b then true else false.
Definition s_log : list N := [108;111;103]%N.
Definition s_log2 : list N := [108;111;103;50]%N.
Definition s_log10 : list N := [108;111;103;49;48]%N.
Definition s_exp : list N := [101;120;112]%N.
Definition s_exp2 : list N := [101;120;112;50]%N.
Definition s_exp10 : list N := [101;120;112;49;48]%N.

Definition denote_ufunc (u : list N) : option (R -> R) :=
  if str_eqb u s_log then Some ln
  else if str_eqb u s_log2 then Some (Rlog 2)
  else if str_eqb u s_log10 then Some (Rlog 10)
  else if str_eqb u s_exp then Some exp
  else if str_eqb u s_exp2 then Some (Rpower 2)
  else None.
Definition denote_row (row : list N * nat * list N * Z) : option (R -> R) :=
  let '(_, kind, u, c) := row in
  match kind with
  | 0%nat => denote_ufunc u
  | 1%nat => Some (fun x => Rpower x (IZR c))        (* x ** c *)
  | 2%nat => Some (Rpower (IZR c))                   (* c ** x *)
  | _ => None
  end.
Fixpoint lookup (name : list N) (t : list (list N * nat * list N * Z)) : option (list N * nat * list N * Z) :=
  match t with [] => None | row :: r => if str_eqb (fst (fst (fst row))) name then Some row else lookup name r end.
Definition denote (name : list N) : option (R -> R) :=
  match lookup name transforms with Some row => denote_row row | None => None end.
