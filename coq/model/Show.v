(* ===== Show.v : canonical outcomes and in-Coq comparison ===== *)
From Coq Require Import List NArith ZArith Bool Arith.
Import ListNotations.
Require Import Tok Parser Parser2 Parser3.
Open Scope N_scope.
Definition sset := list (list str).
Definition sside := (sset + list sset)%type.
Inductive outcome := ORoot (s : sside) | OTwo (l r : sside) | OMulti | OReject | OPySyntax | OInternal (n : nat).
Definition show_set (ts : list term) : sset := map (map tx) ts.
Definition show_side (s : side) : sside := match s with SSet ts => inl (show_set ts) | STup ps => inr (map show_set ps) end.
Definition show (r : res val) : outcome :=
  match r with
  | inl (VSide s) => ORoot (show_side s) | inl (VTwo l r) => OTwo (show_side l) (show_side r) | inl VMulti => OMulti
  | inr ESyntax => OReject | inr EPySyntax => OPySyntax | inr (EInternal n) => OInternal n
  end.
Fixpoint l2eqb (a b : list str) := match a, b with [], [] => true | x :: a', y :: b' => leqb x y && l2eqb a' b' | _, _ => false end.
Fixpoint sseteqb (a b : sset) := match a, b with [], [] => true | x :: a', y :: b' => l2eqb x y && sseteqb a' b' | _, _ => false end.
Fixpoint partseqb (a b : list sset) := match a, b with [], [] => true | x :: a', y :: b' => sseteqb x y && partseqb a' b' | _, _ => false end.
Definition sideeqb (a b : sside) := match a, b with inl x, inl y => sseteqb x y | inr x, inr y => partseqb x y | _, _ => false end.
Definition oeqb (a b : outcome) := match a, b with
  | ORoot x, ORoot y => sideeqb x y | OTwo a1 a2, OTwo b1 b2 => sideeqb a1 b1 && sideeqb a2 b2
  | OMulti, OMulti | OReject, OReject | OPySyntax, OPySyntax => true | OInternal n, OInternal m => Nat.eqb n m | _, _ => false end.
Fixpoint chk (cl : N -> cls) (cs : list (str * bool * (bool*bool*bool) * option (list str) * list (str * nat) * list (str * list str) * outcome)) (i : nat) : nat * list nat :=
  match cs with [] => (O, [])
  | (s, ic, (f1, f2, f3), av, bad, pv, exp) :: r =>
      let '(m, fl) := chk cl r (S i) in
      if oeqb (show (get_terms false ic {| f_two := f1; f_parts := f2; f_stage := f3 |} av bad pv cl s)) exp then (m, fl) else (S m, i :: fl)
  end.

Fixpoint chkf (fixed : bool) (cl : N -> cls) (cs : list (str * bool * (bool*bool*bool) * option (list str) * list (str * nat) * list (str * list str) * outcome)) (i : nat) : nat * list nat :=
  match cs with [] => (O, [])
  | (s, ic, (f1, f2, f3), av, bad, pv, exp) :: r =>
      let '(m, fl) := chkf fixed cl r (S i) in
      let got := show (get_terms fixed ic {| f_two := f1; f_parts := f2; f_stage := f3 |} av bad pv cl s) in
      let got' := match got with OInternal _ => OReject | g => g end in   (* the reference says "reject" where the code crashes *)
      if oeqb got' exp then (m, fl) else (S m, i :: fl)
  end.
