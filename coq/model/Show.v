(* ===== Show.v : canonical outcomes of the parser model and in-Coq comparison ===== *)
From Coq Require Import List NArith ZArith Bool Arith.
Import ListNotations.
Require Import Tok Classify Parser Parser2 Parser3.
Open Scope N_scope.
Definition sset := list (list str).
Definition sside := (sset + list sset)%type.
Inductive outcome := ORoot (s : sside) | OTwo (l r : sside) | OMulti | OReject | OPySyntax | OInternal (n : nat).
Definition show_set (ts : list term) : sset := map (map tx) ts.
Definition show_side (s : side) : sside := match s with SSet ts => inl (show_set ts) | STup ps => inr (map show_set ps) end.
Definition show (r : res val) : outcome :=
  match r with
  | inl (VSide s) => ORoot (show_side s) | inl (VTwo l r) => OTwo (show_side l) (show_side r) | inl VMulti => OMulti
  | inr ESyntax => OReject | inr EPySyntax => OPySyntax | inr (EInternal n) => OInternal n
  end.
Fixpoint l2eqb (a b : list str) := match a, b with [], [] => true | x :: a', y :: b' => leqb x y && l2eqb a' b' | _, _ => false end.
Fixpoint sseteqb (a b : sset) := match a, b with [], [] => true | x :: a', y :: b' => l2eqb x y && sseteqb a' b' | _, _ => false end.
Fixpoint partseqb (a b : list sset) := match a, b with [], [] => true | x :: a', y :: b' => sseteqb x y && partseqb a' b' | _, _ => false end.
Definition sideeqb (a b : sside) := match a, b with inl x, inl y => sseteqb x y | inr x, inr y => partseqb x y | _, _ => false end.
Definition oeqb (a b : outcome) := match a, b with
  | ORoot x, ORoot y => sideeqb x y | OTwo a1 a2, OTwo b1 b2 => sideeqb a1 b1 && sideeqb a2 b2
  | OMulti, OMulti | OReject, OReject | OPySyntax, OPySyntax => true | OInternal n, OInternal m => Nat.eqb n m | _, _ => false end.

Record pcase := {
  p_src : str;                          (* the formula string *)
  p_intercept : bool;
  p_flags : bool * bool * bool;          (* TWOSIDED, MULTIPART, MULTISTAGE *)
  p_avail : option (list str);           (* __formulaic_variables_available__ *)
  p_bad : list (str * nat);              (* python fragments that ast rejects: 0 = SyntaxError, n = other class *)
  p_norm : list (str * str);             (* python fragments and their normal form *)
  p_vars : list (str * list str);        (* variables reported for each (normalised) python fragment *)
  p_expect : outcome                     (* what the implementation returned *)
}.
Definition run_case (extra : list (N * (bool * bool * bool))) (c : pcase) : outcome :=
  let '(f1, f2, f3) := p_flags c in
  show (get_terms true (p_intercept c) {| f_two := f1; f_parts := f2; f_stage := f3 |} (p_avail c) (p_bad c) (p_norm c) (p_vars c)
                  (classify_with extra) (p_src c)).
(* ASTNode.to_terms evaluates nodes in graphlib order, the model left to right: when two nodes fail, which exception
   surfaces may differ.  After the repairs this is observable only for the recorded KeyError finding ('.' without intercept). *)
Definition order_only (c : pcase) (got exp : outcome) : bool :=
  negb (p_intercept c) && match got, exp with
                          | OInternal 6, OReject | OReject, OInternal 6 => true
                          | _, _ => false end.
Fixpoint chk_parser (extra : list (N * (bool * bool * bool))) (cs : list pcase) (i : nat) : nat * list nat :=
  match cs with [] => (O, [])
  | c :: r => let '(m, fl) := chk_parser extra r (S i) in
              if oeqb (run_case extra c) (p_expect c) || order_only c (run_case extra c) (p_expect c) then (m, fl) else (S m, i :: fl)
  end.

(* ---------- tokenizer level: (text, kind, start, end) or the error site ---------- *)
Definition kcode (k : option kind) : nat := match k with Some KContext => 0 | Some KOperator => 1 | Some KValue => 2 | Some KName => 3 | Some KPython => 4 | None => 9 end%nat.
Definition ecode (e : terr) : nat := match e with EUnterminated => 0 | EUnexpectedQuote => 1 | EUnexpectedKind => 2 end%nat.
Definition on (o : option nat) := match o with Some n => n | None => 999%nat end.
Definition tshow (r : list token + terr) : list (str * nat * nat * nat) + nat :=
  match r with inl ts => inl (map (fun t => (ttext t, kcode (tkind t), on (tstart t), on (tend t))) ts) | inr e => inr (ecode e) end.
Fixpoint tseqb (a b : list (str * nat * nat * nat)) := match a, b with [], [] => true
  | (t1,k1,s1,e1) :: a', (t2,k2,s2,e2) :: b' => leqb t1 t2 && Nat.eqb k1 k2 && Nat.eqb s1 s2 && Nat.eqb e1 e2 && tseqb a' b' | _, _ => false end.
Definition tagree (x y : list (str * nat * nat * nat) + nat) := match x, y with inl a, inl b => tseqb a b | inr a, inr b => Nat.eqb a b | _, _ => false end.
Fixpoint chk_tok (extra : list (N * (bool * bool * bool))) (cs : list (str * (list (str * nat * nat * nat) + nat))) (i : nat) : nat * list nat :=
  match cs with [] => (O, [])
  | (a, b) :: r => let '(m, f) := chk_tok extra r (S i) in if tagree (tshow (tokenize (classify_with extra) a)) b then (m, f) else (S m, i :: f) end.
