(* ===== ShowC19.v : case types and in-Coq comparison for the container models ===== *)
From Coq Require Import List Arith Bool NArith ZArith.
Import ListNotations.
Require Import Struct Layered FormulaSeq.

(* ---------- Structured ---------- *)
Fixpoint node_eqb (a b : node N) : bool :=
  match a, b with
  | Leaf x, Leaf y => N.eqb x y
  | Tup xs, Tup ys => (fix go (l1 l2 : list (node N)) := match l1, l2 with [], [] => true | x :: r1, y :: r2 => node_eqb x y && go r1 r2 | _, _ => false end) xs ys
  | Str xs, Str ys => (fix go (l1 l2 : list (key * node N)) := match l1, l2 with [], [] => true
                         | (k1, x) :: r1, (k2, y) :: r2 => keqb k1 k2 && node_eqb x y && go r1 r2 | _, _ => false end) xs ys
  | _, _ => false
  end.
Fixpoint nlist_eqb (a b : list N) : bool := match a, b with [], [] => true | x :: r1, y :: r2 => N.eqb x y && nlist_eqb r1 r2 | _, _ => false end.

Record scase := {
  s_in : node N;                      (* the Structured instance, read back from `_structure` *)
  s_flat : list N;                    (* list(s._flatten()) *)
  s_calls : list N;                   (* arguments of the successive calls made by s._map(f) *)
  s_map : node N;                     (* s._map(lambda x: x + 1) *)
  s_simp : node N;                    (* s._simplify() ; a bare leaf is Leaf *)
  s_simp_nounwrap : node N;           (* s._simplify(unwrap=False) *)
  s_upd : list (key * node N);        (* kwargs of _update *)
  s_updated : node N;                 (* s._update(kwargs) *)
  s_others : list (node N);           (* further objects for _merge *)
  s_merged : option (node N)          (* Structured._merge(s, others..., merger=sum) ; None = ValueError (not aligned) *)
}.
Definition msum (l : list N) : N := fold_left N.add l 0%N.
Definition scheck (c : scase) : bool :=
  nlist_eqb (sflatten (s_in c)) (s_flat c)
  && nlist_eqb (leaves (s_in c)) (s_calls c)
  && node_eqb (smap (N.add 1) (s_in c)) (s_map c)
  && node_eqb (simplify (s_in c)) (s_simp c)
  && node_eqb (simplify_nounwrap (s_in c)) (s_simp_nounwrap c)
  && node_eqb (supdate (s_in c) (s_upd c)) (s_updated c)
  && match smerge msum (S (fold_right (fun x s => nsize x + s) (nsize (s_in c)) (s_others c))) true (s_in c :: s_others c), s_merged c with
     | inl m, Some e => node_eqb m e
     | inr MNotAligned, None => true
     | _, _ => false
     end
  && wf (s_in c).

Fixpoint chk_gen {C} (f : C -> bool) (cs : list C) (i : nat) : nat * list nat :=
  match cs with [] => (O, []) | c :: r => let '(m, fl) := chk_gen f r (S i) in if f c then (m, fl) else (S m, i :: fl) end.
Definition chk_struct := @chk_gen scase scheck.

(* ---------- LayeredMapping ---------- *)
Fixpoint klist_eqb (a b : list key) : bool := match a, b with [], [] => true | x :: r1, y :: r2 => keqb x y && klist_eqb r1 r2 | _, _ => false end.
Inductive lact := ASet (k : key) (v : N) | ADel (k : key) (ok : bool) | AWith (new : list (lay N)) (prepend inplace : bool) (name : option key).
Record lcase := {
  l_in : lay N;
  l_acts : list lact;                                  (* ADel records whether the implementation raised KeyError *)
  l_iter : list key;                                   (* list(m) at the end *)
  l_len : nat;                                         (* len(m) at the end *)
  l_gets : list (key * option N);                      (* m.get(k) for every key of the universe *)
  l_named : list (key * option (N * list key))         (* get_with_layer_name(k): value and name path *)
}.
Definition lrun1 (st : lay N * bool) (a : lact) : lay N * bool :=
  let '(l, ok) := st in
  match a with
  | ASet k v => (lset k v l, ok)
  | ADel k expect_ok => match ldel k l with Some l' => (l', ok && expect_ok) | None => (l, ok && negb expect_ok) end
  | AWith new p i nm => (with_layers l new p i nm, ok)
  end.
Definition oN_eqb (a b : option N) := match a, b with Some x, Some y => N.eqb x y | None, None => true | _, _ => false end.
Definition onamed_eqb (a b : option (N * list key)) :=
  match a, b with Some (x, p), Some (y, q) => N.eqb x y && klist_eqb p q | None, None => true | _, _ => false end.
Definition lcheck (c : lcase) : bool :=
  let '(l, ok) := fold_left lrun1 (l_acts c) (l_in c, true) in
  ok && klist_eqb (liter l) (l_iter c) && Nat.eqb (llen l) (l_len c)
  && forallb (fun kv => oN_eqb (lget (fst kv) l) (snd kv)) (l_gets c)
  && forallb (fun kv => onamed_eqb (lget_named (fst kv) [] l) (snd kv)) (l_named c).
Definition chk_layered := @chk_gen lcase lcheck.

(* ---------- SimpleFormula as a sequence ---------- *)
Record fcase := {
  f_ord : ordering;
  f_init : list sterm;
  f_ops : list (fop * bool);          (* operation, and whether the implementation accepted it (no IndexError) *)
  f_final : list (list key)           (* the factor expressions of the final terms, in order *)
}.
Fixpoint kll_eqb (a b : list (list key)) : bool := match a, b with [], [] => true | x :: r1, y :: r2 => klist_eqb x y && kll_eqb r1 r2 | _, _ => false end.
Definition frun1 (st : formula * bool) (o : fop * bool) : formula * bool :=
  let '(f, ok) := st in
  match fstep f (fst o) with Some f' => (f', ok && snd o) | None => (f, ok && negb (snd o)) end.
Definition fcheck (c : fcase) : bool :=
  let '(f, ok) := fold_left frun1 (f_ops c) (mk_formula (f_ord c) (f_init c), true) in
  ok && kll_eqb (map (map fexpr) (fterms f)) (f_final c) && ordered f.
Definition chk_formula := @chk_gen fcase fcheck.
