(* ===== BSpline.v : transforms/basis_spline.py -- Cox-de Boor recursion with boundary handling and extension (C12) =====
   Exact rationals (Q, compared with Qeq_bool / Qle_bool like the floats they stand for).  K is the padded knot vector as a function
   of the index (see `kfun`), L its length.  No proofs here. *)
From Coq Require Import List QArith Qround Bool Arith.
Import ListNotations.
Open Scope Q_scope.

Definition Qltb (a b : Q) : bool := negb (Qle_bool b a).

Section BS.
Variable K : nat -> Q.
Variable L degree : nat.
Variable ext : bool.                       (* extrapolation == 'extend' *)

(* cache[0][i] *)
Definition ind (i : nat) (x : Q) : Q :=
  if ext then
    (if (if Nat.eqb i degree then true else Qle_bool (K i) x) &&
        (if Nat.eqb (S i) (L - degree - 1) then true else Qltb x (K (S i))) then 1 else 0)
  else
    (if Qle_bool (K i) x &&
        (if Nat.eqb (S i) (L - degree - 1) then Qle_bool x (K (S i)) else Qltb x (K (S i))) then 1 else 0).
(* alpha(i, j) *)
Definition alpha (i j : nat) (x : Q) : Q :=
  if Qeq_bool (K (i + j)) (K i) then 0 else (x - K i) / (K (i + j) - K i).
(* cache[d][i] *)
Fixpoint B (d : nat) (i : nat) (x : Q) : Q :=
  match d with
  | O => ind i x
  | S d' => Qred (alpha i d x * B d' i x + (1 - alpha (S i) d x) * B d' (S i) x)     (* Qred: the same rational in lowest terms *)
  end.
End BS.

(* the same recurrence started from the unit vector e_j: the polynomial piece of interval j *)
Section Piece.
Variable K : nat -> Q.
Variable j : nat.
Fixpoint Bpiece (d : nat) (i : nat) (x : Q) : Q :=
  match d with
  | O => if Nat.eqb i j then 1 else 0
  | S d' => Qred (alpha K i d x * Bpiece d' i x + (1 - alpha K (S i) d x) * Bpiece d' (S i) x)
  end.
End Piece.

(* knot vector: [lower] + inner + [upper], padded `degree` times on each side (numpy.pad mode='edge') *)
Definition pad_knots (lb : Q) (inner : list Q) (ub : Q) (degree : nat) : list Q :=
  repeat lb degree ++ [lb] ++ inner ++ [ub] ++ repeat ub degree.
Definition kfun (kn : list Q) (i : nat) : Q := nth i kn (last kn 0).

Inductive extrap := XRaise | XClip | XNa | XZero | XExtend.
Definition clampq (lb ub x : Q) : Q := if Qltb x lb then lb else if Qltb ub x then ub else x.
(* one row of the result: None = the call raises; Some None = a nan row; Some (Some cells) *)
Definition bs_row (kn : list Q) (degree : nat) (intercept : bool) (mode : extrap) (x : Q) : option (option (list Q)) :=
  let L := length kn in
  let lb := kfun kn degree in let ub := kfun kn (L - degree - 1) in
  let outside := Qltb x lb || Qltb ub x in
  let cols := seq (if intercept then 0 else 1)%nat (L - degree - 1 - (if intercept then 0 else 1)) in
  let row ext x := Some (Some (map (fun i => B (kfun kn) L degree ext degree i x) cols)) in
  match mode with
  | XRaise => if outside then None else row false x
  | XClip => row false (clampq lb ub x)
  | XNa => if outside then Some None else row false x
  | XZero => row false x
  | XExtend => row true x
  end.

(* numpy.nanquantile(sorted data a, q) with linear interpolation: q = num/den *)
Definition quantile (a : list Q) (num den : nat) : Q :=
  let n := length a in
  let h := (inject_Z (Z.of_nat num) * inject_Z (Z.of_nat (n - 1)) / inject_Z (Z.of_nat den)) in
  let lo := Z.to_nat (Qfloor h) in
  let frac := h - inject_Z (Qfloor h) in
  nth lo a 0 + frac * (nth (S lo) a (nth lo a 0) - nth lo a 0).
(* df-derived inner knots: the nknots equally spaced quantiles of the in-bounds data *)
Definition df_knots (sorted_x : list Q) (nknots : nat) : list Q :=
  map (fun j => quantile sorted_x j (S nknots)) (seq 1 nknots).

(* the shape conditions of a padded, sorted knot vector, as a checkable predicate *)
Definition knots_ok (kn : list Q) (degree : nat) : bool :=
  let L := length kn in let K := kfun kn in
  Nat.leb (2 * degree + 2) L &&
  forallb (fun i => Qle_bool (K i) (K (S i))) (seq 0 L) &&
  forallb (fun i => Qeq_bool (K i) (K 0%nat)) (seq 0 (S degree)) &&
  forallb (fun i => Qeq_bool (K i) (K (L - degree - 1)%nat)) (seq (L - degree - 1) (S degree)).
