(* ===== Poly.v : transforms/poly.py -- orthogonal polynomial basis by the monic three-term recurrence (C11 poly contrasts, C13) =====
   Exact rationals (Qc).  `train` is the training pass (alpha_k and norms2_k computed from the data, lazily, in the order the
   code computes them); `evalP` is the recurrence with RECORDED coefficients, the only path used for new data.  The final division
   by sqrt(norms2_k) is kept symbolic: `out_sq` gives the square of the output cell together with its sign.  No proofs here. *)
From Coq Require Import List QArith Qcanon Arith Bool.
Import ListNotations.
Open Scope Qc_scope.

Definition sumq (l : list Qc) : Qc := fold_right Qcplus 0 l.

(* P[:, k] for one row, from recorded alpha / norms2 (dicts keyed 0.. in the code; lists here) *)
Fixpoint evalP (al nr : list Qc) (k : nat) (x : Qc) : Qc :=
  match k with
  | O => 1
  | S k' =>
      match k' with
      | O => (x - nth 0 al 0) * 1
      | S k'' => (x - nth k' al 0) * evalP al nr k' x - (nth k' nr 0 / nth k'' nr 0) * evalP al nr k'' x
      end
  end.

(* training on the non-null data xs: after `train xs k` the state holds alpha_0..alpha_{k-1} and norms2_0..norms2_{k-1} *)
Fixpoint train (xs : list Qc) (k : nat) : list Qc * list Qc :=
  match k with
  | O => ([], [])
  | S k' =>
      let '(al, nr) := train xs k' in
      let pk := map (evalP al nr k') xs in
      let nk := sumq (map (fun p => p * p) pk) in
      (al ++ [sumq (map (fun xp => fst xp * (snd xp * snd xp)) (combine xs pk)) / nk], nr ++ [nk])
  end.

(* poly(x, degree) in training mode records alpha_0..alpha_{degree-1} and norms2_0..norms2_degree *)
Definition fit (xs : list Qc) (degree : nat) : list Qc * list Qc :=
  let '(al, nr) := train xs (S degree) in (firstn degree al, nr).

(* rows with a null stay null in every column; the statistics see only the non-null rows *)
Definition nonnull (data : list (option Qc)) : list Qc := flat_map (fun o => match o with Some x => [x] | None => [] end) data.
(* unnormalised output: row -> list of P_1..P_degree (None = nan row) *)
Definition apply_raw (st : list Qc * list Qc) (degree : nat) (data : list (option Qc)) : list (option (list Qc)) :=
  map (fun o => match o with Some x => Some (map (fun k => evalP (fst st) (snd st) k x) (seq 1 degree)) | None => None end) data.
Definition poly_fit_apply (degree : nat) (data : list (option Qc)) := apply_raw (fit (nonnull data) degree) degree data.
