(* ===== C17 : required variables, name resolution order and '.' expansion ===== *)
From Coq Require Import List NArith ZArith QArith Qcanon Bool Arith.
Import ListNotations.
Require Import Struct Layered Mat Tok Parser Parser2 Parser3 MatSep ResolveLaws RequiredVars.
Open Scope nat_scope.

(* names resolve to the data first, then the caller's context, then the built-in transforms; the reported source is the layer
   that actually supplied the value (any contents of the three layers, any overlaps) *)
Theorem C17_resolution_order : forall (V : Type) (data ctx tr : list (key * V)) k,
  lget_named k [] (mat_context data ctx tr) =
  match dget k data with
  | Some v => Some (v, [kdata])
  | None => match dget k ctx with
            | Some v => Some (v, [kcontext])
            | None => match dget k tr with Some v => Some (v, [ktransforms]) | None => None end
            end
  end.
Proof. exact @resolution_order. Qed.
Theorem C17_reported_value_is_looked_up_value : forall (V : Type) (data ctx tr : list (key * V)) k,
  option_map fst (lget_named k [] (mat_context data ctx tr)) = lget k (mat_context data ctx tr).
Proof. exact @resolution_value. Qed.
(* '.' expands to exactly the available (data) variables not used on the left-hand side, in their given order *)
Theorem C17_dot_expansion_exact : forall av used,
  apply_op {| avail := Some av; used_lhs := Some used |} dot_op [] =
  inl (VSide (SSet (oset (map (fun v => [ {| tx := v; kd := KName |} ]) (filter (fun v => negb (mem_txt v used)) av)) []))).
Proof. exact dot_expansion_exact. Qed.
(* formulas of looked-up names: the names are sufficient and necessary *)
Theorem C17_required_sufficient : forall d n c terms,
  (forall f, In f (pool_of terms) -> missing d f = false) -> build d n c terms <> inr EEval.
Proof. exact required_sufficient. Qed.
Theorem C17_required_necessary : forall d n c terms f,
  In f (pool_of terms) -> missing d f = true -> build d n c terms = inr EEval.
Proof. exact required_necessary. Qed.

Example C17_example :
  lget_named [97]%N [] (mat_context [([97]%N, 1)] [([97]%N, 2); ([98]%N, 3)] [([98]%N, 4); ([99]%N, 5)]) = Some (1, [kdata]) /\
  lget_named [98]%N [] (mat_context [([97]%N, 1)] [([97]%N, 2); ([98]%N, 3)] [([98]%N, 4); ([99]%N, 5)]) = Some (3, [kcontext]) /\
  lget_named [99]%N [] (mat_context [([97]%N, 1)] [([97]%N, 2); ([98]%N, 3)] [([98]%N, 4); ([99]%N, 5)]) = Some (5, [ktransforms]).
Proof. vm_compute. auto. Qed.

(* the same with the reported names as a LIST (`required_vars`, compared with Formula.required_variables on every case of the `required`
   stream): on the data restricted to exactly those columns no factor fails to evaluate; with any ONE of them taken away materialization
   ends in the factor-evaluation error; a column that is not reported can be taken away freely.  `consistent`: an expression text has one
   kind -- it fails exactly for a data column whose name is also a literal (known finding C15-column-named-1). *)
Theorem C17_required_list_sufficient : forall d n c terms,
  (forall v, In v (required_vars terms) -> lookup d v <> None) -> build (restrict d (required_vars terms)) n c terms <> inr EEval.
Proof. exact required_vars_sufficient. Qed.
Theorem C17_required_list_necessary : forall d n c terms v,
  consistent (concat terms) -> In v (required_vars terms) -> build (without d v) n c terms = inr EEval.
Proof. exact required_vars_necessary. Qed.
Theorem C17_unreported_column_irrelevant : forall d n c terms v,
  ~ In v (required_vars terms) -> (forall f, In f (pool_of terms) -> missing d f = false) -> build (without d v) n c terms <> inr EEval.
Proof. exact unreported_column_is_irrelevant. Qed.
(* structured formulas (several parts evaluated jointly) *)
Theorem C17_required_list_sufficient_parts : forall d n c (parts : list (list Mat.term)),
  (forall v, In v (required_vars (concat parts)) -> lookup d v <> None) ->
  build_parts (restrict d (required_vars (concat parts))) n c parts <> inr EEval.
Proof. exact required_vars_sufficient_parts. Qed.
Theorem C17_required_list_necessary_parts : forall d n c (parts : list (list Mat.term)) v,
  consistent (concat (concat parts)) -> In v (required_vars (concat parts)) -> build_parts (without d v) n c parts = inr EEval.
Proof. exact required_vars_necessary_parts. Qed.
Example C17_required_example :
  let a := Build_factor [97]%N FLookup in let b := Build_factor [98]%N FLookup in let two := Build_factor [50]%N FLit in
  let d := [([97]%N, CNum [Some (Q2Qc 1)]); ([98]%N, CNum [Some (Q2Qc 2)]); ([99]%N, CNum [Some (Q2Qc 3)])] in
  required_vars [[two; a]; [a; b]] = [[97]; [97]; [98]]%N /\ map fst (restrict d (required_vars [[two; a]; [a; b]])) = [[97]; [98]]%N /\
  build (without d [98]%N) 1 (Build_cfg true NaDrop []) [[two; a]; [a; b]] = inr EEval.
Proof. vm_compute. auto. Qed.

Print Assumptions C17_required_list_sufficient.
Print Assumptions C17_required_list_necessary.
Print Assumptions C17_unreported_column_irrelevant.
Print Assumptions C17_required_list_sufficient_parts.
Print Assumptions C17_required_list_necessary_parts.
Print Assumptions C17_required_example.
Print Assumptions C17_resolution_order.
Print Assumptions C17_reported_value_is_looked_up_value.
Print Assumptions C17_dot_expansion_exact.
Print Assumptions C17_required_sufficient.
Print Assumptions C17_required_necessary.
Print Assumptions C17_example.
