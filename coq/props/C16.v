(* ===== C16 : linear-constraint specifications compile to the affine map they express ===== *)
From Coq Require Import List NArith ZArith QArith Qcanon Bool Arith.
Import ListNotations.
Require Import GenOps Tok Cons ConsLaws GenTie ConsRows ConsEnd.
Open Scope Qc_scope.

(* the constraint operator table of the model is the one /repo defines now *)
Theorem C16_operator_table_is_the_code's : map cons_raw_of Cons.table = constraint_raw_table.
Proof. exact constraint_table_matches_generated. Qed.

(* Soundness of the expression compiler, for every expression tree (unbounded nesting, repeated variables, constants on both
   sides of '='): if evaluation succeeds with factor set c then c is duplicate-free and, at EVERY point x, the value of c is
   the arithmetic value of the expression, where "l = r" means l - r. *)
Theorem C16_expression_sound : forall fuel a c, eval fuel a = inl (VSet c) -> good c /\ forall x, den x c = aeval x a.
Proof. exact eval_sound. Qed.
(* the matrix row A_i and constant b_i produced for a factor set satisfy  A_i.x - b_i = lhs(x) - rhs(x)  for every x *)
Theorem C16_row_sound : forall vars c row b, NoDup vars -> uniq c -> row_of vars c = inl (row, b) ->
  forall x, dot row (map x vars) - b = den x c.
Proof. exact row_sound. Qed.
(* the algebra of scaled-factor sets is the algebra of affine forms *)
Theorem C16_add : forall x a b, uniq a -> uniq b -> den x (add_terms a b) = den x a + den x b.
Proof. exact den_add_terms. Qed.
Theorem C16_sub : forall x a b, uniq a -> uniq b -> den x (sub_terms a b) = den x a - den x b.
Proof. exact den_sub_terms. Qed.
Theorem C16_mul : forall x a b p, uniq a -> uniq b -> pairwise mul_term a b = inl p -> uniq p /\ den x p = den x a * den x b.
Proof. exact den_mul_terms. Qed.
Theorem C16_div : forall x a b p, uniq a -> uniq b -> a <> [] -> pairwise div_term a b = inl p ->
  uniq p /\ ((b = [] /\ p = []) \/ exists c, b = [(None, c)] /\ c <> Q2Qc 0 /\ den x p = den x a / c).
Proof. exact den_div_terms. Qed.
(* non-linear specifications are rejected: a product of two variable-bearing factors, a variable-bearing divisor; unknown columns too *)
Theorem C16_nonlinear_product_rejected : forall l r, fst l <> None -> fst r <> None -> mul_term l r = inr 9%nat.
Proof. exact nonlinear_product_rejected. Qed.
Theorem C16_variable_divisor_rejected : forall l r, fst r <> None -> div_term l r = inr 9%nat.
Proof. exact variable_divisor_rejected. Qed.
Theorem C16_unknown_column_rejected : forall vars c, (exists k q, In (Some k, q) c /\ ~ In k vars) -> row_of vars c = inr 6%nat.
Proof. exact row_unknown_column. Qed.

(* one row per constraint, in the order written: however the commas of 'c1, c2, ..., cn' nest, the value is the tuple of the values of c1 .. cn in
   that order, and get_matrix turns the tuple into one (row, constant) pair per entry, in order *)
Theorem C16_comma_list_keeps_order : forall t cs, commas_only t -> Forall2 (fun a c => evals a (VSet c)) (flat t) cs ->
  exists v, evals (ast_of_ct t) v /\ items v = cs.
Proof. exact comma_tree_value. Qed.
Theorem C16_one_row_per_constraint_in_order : forall vars cs rows, rows_of vars cs = inl rows -> Forall2 (fun c x => row_of vars c = inl x) cs rows.
Proof. exact rows_in_order. Qed.
Theorem C16_matrix_loop_is_rows_of : forall vars cs acc rows,
  (fix go (l : list (list sfac)) (acc : list (list Qc * Qc)) : res (list (list Qc * Qc)) :=
     match l with [] => inl (rev acc) | c :: r => match row_of vars c with inl x => go r (x :: acc) | inr e => inr e end end) cs acc = inl rows ->
  exists tail, rows_of vars cs = inl tail /\ rows = rev acc ++ tail.
Proof. exact rows_loop. Qed.

(* end to end: the row A_i and constant b_i compiled from a constraint expression satisfy  A_i.x - b_i = (the expression's value at x)
   for every x -- the composition of C16_expression_sound and C16_row_sound, with no side condition left on the factor set *)
Theorem C16_compiled_row_is_the_expression : forall fuel a c vars row b, NoDup vars -> eval fuel a = inl (VSet c) -> row_of vars c = inl (row, b) ->
  forall x, dot row (map x vars) - b = aeval x a.
Proof. exact compiled_row_is_the_expression. Qed.
(* non-vacuity: 2a - b - 3 over the columns a, b, c is the row (2, -1, 0) with constant 3; a constraint on an unknown column is rejected *)
Example C16_example :
  row_of [[97]; [98]; [99]]%N [(Some [97]%N, Q2Qc 2); (Some [98]%N, Q2Qc (-1)); (None, Q2Qc (-3))] = inl ([Q2Qc 2; Q2Qc (-1); Q2Qc 0], Q2Qc 3) /\
  add_terms [(Some [97]%N, Q2Qc 2)] [(Some [97]%N, Q2Qc 1); (None, Q2Qc 5)] = [(Some [97]%N, Q2Qc 3); (None, Q2Qc 5)] /\
  row_of [[97]]%N [(Some [98]%N, Q2Qc 2)] = inr 6%nat.
Proof. vm_compute. auto. Qed.

Print Assumptions C16_compiled_row_is_the_expression.
Print Assumptions C16_example.
Print Assumptions C16_comma_list_keeps_order.
Print Assumptions C16_one_row_per_constraint_in_order.
Print Assumptions C16_matrix_loop_is_rows_of.
Print Assumptions C16_operator_table_is_the_code's.
Print Assumptions C16_expression_sound.
Print Assumptions C16_row_sound.
Print Assumptions C16_add.
Print Assumptions C16_sub.
Print Assumptions C16_mul.
Print Assumptions C16_div.
Print Assumptions C16_nonlinear_product_rejected.
Print Assumptions C16_variable_divisor_rejected.
Print Assumptions C16_unknown_column_rejected.
