(* ===== C13 : scaling, polynomial and elementwise transforms meet their numeric contracts ===== *)
From Coq Require Import List NArith ZArith QArith Qcanon Reals Bool Arith.
Import ListNotations.
Require Import GenTransforms Poly PolyLaws Scale ScaleLaws Elem ElemLaws.

(* ---- center / scale on the data they are fitted on (exact rationals; r stands for numpy.sqrt of the recorded variance) ---- *)
Theorem C13_center_mean_zero : forall xs, xs <> [] ->
  sumq (map fst (snd (center_step s_empty xs))) = 0%Qc /\ forall r, In r (snd (center_step s_empty xs)) -> snd r = None.
Proof. exact center_step_mean_zero. Qed.
Theorem C13_scale_zero_mean_unit_deviation : forall xs ddof r,
  let res := scale_step s_empty (FBool true) (FBool true) ddof xs in
  let V := (sumq (map (fun x => (x - mean xs) * (x - mean xs)) xs) / (qn (length xs) - ddof))%Qc in
  xs <> [] -> (qn (length xs) - ddof)%Qc <> 0%Qc -> (r * r)%Qc = V -> V <> 0%Qc ->
  (forall row, In row (snd res) -> snd row = Some (SRoot V)) /\
  sumq (map (fun row => fst row / r)%Qc (snd res)) = 0%Qc /\
  (sumq (map (fun row => (fst row / r) * (fst row / r)) (snd res)) / (qn (length xs) - ddof))%Qc = 1%Qc.
Proof. exact scale_step_fit. Qed.
(* ---- the recorded statistics are applied unchanged to new data, whatever the later arguments ---- *)
Theorem C13_scale_state_first : forall dd c s cflag sflag ddof ys,
  let st := {| s_ddof := Some dd; s_center := Some c; s_scale := Some s |} in
  scale_step st cflag sflag ddof ys = (st, map (fun y => (match c with Some c => (y - c)%Qc | None => y end, s)) ys).
Proof. exact scale_step_state_first. Qed.
Theorem C13_scale_records_all_keys_and_keeps_recorded_ones : forall st cflag sflag ddof xs,
  let st' := fst (scale_step st cflag sflag ddof xs) in
  (exists dd c s, st' = {| s_ddof := Some dd; s_center := Some c; s_scale := Some s |}) /\
  (forall dd, s_ddof st = Some dd -> s_ddof st' = Some dd) /\
  (forall c, s_center st = Some c -> s_center st' = Some c) /\
  (forall s, s_scale st = Some s -> s_scale st' = Some s).
Proof. exact scale_step_records. Qed.
Theorem C13_scale_fit_then_apply : forall xs ddof ys cflag sflag ddof2,
  let st := fst (scale_step s_empty (FBool true) (FBool true) ddof xs) in
  snd (scale_step st cflag sflag ddof2 ys) =
  map (fun y => ((y - mean xs)%Qc, Some (SRoot (sumq (map (fun m => m * m)%Qc (map (fun x => x - mean xs)%Qc xs)) / (qn (length xs) - ddof))%Qc))) ys.
Proof. exact scale_fit_then_apply. Qed.

(* ---- poly: the code's recurrence with its recorded state is the monic orthogonal family of the training data ---- *)
Theorem C13_poly_fitted_state_is_the_orthogonal_family : forall xs degree k x, (k <= degree)%nat ->
  evalP (fst (fit xs degree)) (snd (fit xs degree)) k x = P xs k x.
Proof. exact fit_evalP. Qed.
Theorem C13_poly_columns_orthogonal : forall xs k, nz xs k -> forall i j, (i < j)%nat -> (j <= S k)%nat -> ip xs (P xs i) (P xs j) = 0%Qc.
Proof. exact orth. Qed.
Theorem C13_poly_columns_orthogonal_to_constant : forall xs k j, nz xs k -> (1 <= j <= S k)%nat -> sumq (map (P xs j) xs) = 0%Qc.
Proof. exact orth_const. Qed.
Theorem C13_poly_columns_unit_length : forall xs degree k d, nz xs degree -> (k <= degree)%nat ->
  let st := train xs (S degree) in (d * d = nth k (snd st) 0)%Qc ->
  sumq (map (fun x => (evalP (fst st) (snd st) k x / d) * (evalP (fst st) (snd st) k x / d))%Qc xs) = 1%Qc.
Proof. exact fitted_columns_unit_length. Qed.
(* same span as the raw powers: column k is x^k plus a polynomial of degree < k (unit-triangular change of basis) *)
Theorem C13_poly_spans_raw_powers : forall xs k, exists c, length c = k /\ forall x, P xs k x = (qpow x k + peval c x)%Qc.
Proof. intros xs k. exact (proj1 (P_monic xs k)). Qed.
(* missing values: a null row is null in every column, is ignored by the statistics, and does not disturb the other rows *)
Theorem C13_poly_nulls_row_wise : forall degree data i,
  nth_error (poly_fit_apply degree data) i =
  match nth_error data i with
  | None => None
  | Some None => Some None
  | Some (Some x) => Some (Some (map (fun k => P (nonnull data) k x) (seq 1 degree)))
  end.
Proof. exact poly_rows. Qed.

(* ---- elementwise functions: the regenerated TRANSFORMS table denotes log/exp families; partners are inverses ---- *)
Open Scope R_scope.
Theorem C13_exp10_is_ten_to_the_x : denote s_exp10 = Some (Rpower 10).
Proof. exact denote_exp10. Qed.
Theorem C13_exp10_at_naturals : forall n, Rpower 10 (INR n) = 10 ^ n.
Proof. exact exp10_at_naturals. Qed.
Theorem C13_log_exp_names : denote s_log = Some ln /\ denote s_log2 = Some (Rlog 2) /\ denote s_log10 = Some (Rlog 10) /\
                            denote s_exp = Some exp /\ denote s_exp2 = Some (Rpower 2).
Proof. exact (conj denote_log (conj denote_log2 (conj denote_log10 (conj denote_exp denote_exp2)))). Qed.
Theorem C13_partners_are_inverses : forall lg ex b, In (lg, ex, b) [(s_log2, s_exp2, 2); (s_log10, s_exp10, 10)] ->
  exists f g, denote lg = Some f /\ denote ex = Some g /\ (forall x, f (g x) = x) /\ (forall x, 0 < x -> g (f x) = x).
Proof. exact table_inverse_pairs. Qed.
Theorem C13_log_exp_are_inverses :
  exists f g, denote s_log = Some f /\ denote s_exp = Some g /\ (forall x, f (g x) = x) /\ (forall x, 0 < x -> g (f x) = x).
Proof. exact table_inverse_natural. Qed.

(* non-vacuity: a concrete fit meets the hypotheses (xs = 1,2,4,7: norms 4, 21, ... non-zero) *)
Open Scope Qc_scope.
Example C13_example_nz : let xs := [Q2Qc 1; Q2Qc 2; Q2Qc 4; Q2Qc 7] in
  forallb (fun k => negb (Qc_eq_bool (norm2 xs k) 0)) [0; 1; 2; 3]%nat = true /\ Qc_eq_bool (mean xs) (Q2Qc (7 # 2)) = true.
Proof. vm_compute. split; reflexivity. Qed.

Print Assumptions C13_center_mean_zero.
Print Assumptions C13_scale_zero_mean_unit_deviation.
Print Assumptions C13_scale_state_first.
Print Assumptions C13_scale_records_all_keys_and_keeps_recorded_ones.
Print Assumptions C13_scale_fit_then_apply.
Print Assumptions C13_poly_fitted_state_is_the_orthogonal_family.
Print Assumptions C13_poly_columns_orthogonal.
Print Assumptions C13_poly_columns_orthogonal_to_constant.
Print Assumptions C13_poly_columns_unit_length.
Print Assumptions C13_poly_spans_raw_powers.
Print Assumptions C13_poly_nulls_row_wise.
Print Assumptions C13_exp10_is_ten_to_the_x.
Print Assumptions C13_exp10_at_naturals.
Print Assumptions C13_log_exp_names.
Print Assumptions C13_partners_are_inverses.
Print Assumptions C13_log_exp_are_inverses.
Print Assumptions C13_example_nz.
