(* ===== C11 : built-in contrast codings are valid and standard for every level count ===== *)
From Coq Require Import List ZArith Bool Arith.
Import ListNotations.
From Coq Require Import QArith Qcanon.
Require Import Contrasts ContrastLaws Poly PolyLaws.
Open Scope Z_scope.

(* full coding = identity (every contrast, every n) *)
Theorem C11_full_coding_is_identity : forall r c, full r c = if Nat.eqb r c then 1 else 0.
Proof. exact full_is_identity. Qed.
(* sum / Helmert (both directions; scaling multiplies a column by a constant) / difference (both directions): columns sum to zero, every n *)
Theorem C11_sum_columns_sum_to_zero : forall n c, (S c < n)%nat -> sumZ (fun r => sumc n r c) n = 0.
Proof. exact sum_columns_zero. Qed.
Theorem C11_helmert_columns_sum_to_zero : forall n c, (S c < n)%nat -> sumZ (fun r => helmert_rev r c) n = 0.
Proof. exact helmert_rev_columns_zero. Qed.
Theorem C11_helmert_forward_columns_sum_to_zero : forall n c, (S c < n)%nat -> sumZ (fun r => helmert_fwd n r c) n = 0.
Proof. exact helmert_fwd_columns_zero. Qed.
Theorem C11_scaled_columns_sum_to_zero : forall f d n, sumZ f n = 0 -> sumZ (fun r => d * f r) n = 0.
Proof. exact scaled_column_zero. Qed.
Theorem C11_diff_columns_sum_to_zero : forall n c, (S c < n)%nat -> sumZ (fun r => diff_num n r c) n = 0.
Proof. exact diff_columns_zero. Qed.
Theorem C11_diff_forward_columns_sum_to_zero : forall n c, (S c < n)%nat -> sumZ (fun r => diff_fwd_num n r c) n = 0.
Proof. exact diff_fwd_columns_zero. Qed.
(* [1 | coding] is invertible and the textbook coefficient matrix is its inverse, for EVERY n:
   treatment with any reference level (incl. SAS = last level): K = (reference ; level - reference) *)
Theorem C11_treatment_coefficients_are_inverse : forall n b i j, (b < n)%nat -> (i < n)%nat -> (j < n)%nat ->
  mmul n (K_treatment b) (with_const (treatment b)) i j = Zb (Nat.eqb i j).
Proof. exact treatment_inverse. Qed.
(* sum coding: n.K = (ones ; n.e_j - ones), i.e. K = (grand mean ; level - grand mean) *)
Theorem C11_sum_coefficients_are_inverse : forall n i j, (0 < n)%nat -> (i < n)%nat -> (j < n)%nat ->
  mmul n (nK_sum n) (with_const (sumc n)) i j = zn n * Zb (Nat.eqb i j).
Proof. exact sum_inverse. Qed.
(* difference coding: K = (grand mean ; level_{j+1} - level_j) *)
Theorem C11_diff_coefficients_are_inverse_const : forall n i, (0 < n)%nat -> (i < n)%nat ->
  sumZ (fun r => nK_diff n i r * 1) n = zn n * Zb (Nat.eqb i 0).
Proof. exact diff_inverse_const. Qed.
Theorem C11_diff_coefficients_are_inverse_coding : forall n i c, (S c < n)%nat -> (i < n)%nat ->
  sumZ (fun r => nK_diff n i r * diff_num n r c) n = zn n * zn n * Zb (Nat.eqb i (S c)).
Proof. exact diff_inverse_coding. Qed.
(* Helmert: the columns of [1|C] are mutually orthogonal with squared norms n, (c+1)(c+2) [reverse] / (n-c-1)(n-c) [forward]:
   D^-1 [1|C]^T is the inverse (level - mean of the previous / following levels) *)
Theorem C11_helmert_orthogonal_columns : forall n c1 c2, (S c1 < n)%nat -> (S c2 < n)%nat -> (c1 <= c2)%nat ->
  sumZ (fun r => helmert_rev r c1 * helmert_rev r c2) n = if Nat.eqb c1 c2 then zn (S c1) * zn (S c1 + 1) else 0.
Proof. exact helmert_rev_gram. Qed.
Theorem C11_helmert_forward_orthogonal_columns : forall n c1 c2, (S c1 < n)%nat -> (S c2 < n)%nat -> (c1 <= c2)%nat ->
  sumZ (fun r => helmert_fwd n r c1 * helmert_fwd n r c2) n = if Nat.eqb c1 c2 then zn (n - c1 - 1) * zn (n - c1) else 0.
Proof. exact helmert_fwd_gram. Qed.
(* ... hence the explicit inverse: with X = [1|C] and the diagonal D of squared column norms, X^T X = D, i.e. (D^-1 X^T) X = I *)
Theorem C11_helmert_coefficients_are_inverse : forall n i j, (i < n)%nat -> (j < n)%nat ->
  sumZ (fun r => with_const helmert_rev r i * with_const helmert_rev r j) n = if Nat.eqb i j then D_helmert_rev n i else 0.
Proof. exact helmert_rev_gram_full. Qed.
Theorem C11_helmert_forward_coefficients_are_inverse : forall n i j, (i < n)%nat -> (j < n)%nat ->
  sumZ (fun r => with_const (helmert_fwd n) r i * with_const (helmert_fwd n) r j) n = if Nat.eqb i j then D_helmert_fwd n i else 0.
Proof. exact helmert_fwd_gram_full. Qed.
(* treatment fast path: the reduced encoding is the dummy matrix without the reference column *)
Theorem C11_treatment_is_column_mask : forall b r c, treatment b r c = Zb (Nat.eqb r (if Nat.ltb c b then c else S c)).
Proof. exact treatment_column_is_indicator. Qed.

(* encoding data = indicator matrix x coding matrix = selection of the level's row; nulls and values outside the level list give a zero row *)
Theorem C11_encoding_is_row_selection : forall n (C : nat -> nat -> Z) o c,
  sumZ (fun k => indicator_row o k * C k c) n = match o with Some l => if Nat.ltb l n then C l c else 0 | None => 0 end.
Proof. exact encode_is_row_selection. Qed.
(* polynomial contrasts = poly(scores, degree n-1): for every score vector with non-degenerate norms the columns are mutually orthogonal,
   sum to zero (orthogonal to the constant), have unit length after the division by sqrt(norms2), and column k is a monic polynomial of
   exact degree k in the score (so [1|C] spans the raw powers: invertible for distinct scores) *)
Theorem C11_poly_columns_orthogonal : forall xs degree j k, nz xs degree -> (j < k)%nat -> (k <= degree)%nat ->
  let st := train xs (S degree) in
  sumq (map (fun x => evalP (fst st) (snd st) j x * evalP (fst st) (snd st) k x)%Qc xs) = 0%Qc.
Proof. exact fitted_columns_orthogonal. Qed.
Theorem C11_poly_columns_sum_to_zero : forall xs degree k, nz xs degree -> (1 <= k <= degree)%nat ->
  let st := train xs (S degree) in sumq (map (evalP (fst st) (snd st) k) xs) = 0%Qc.
Proof. exact fitted_columns_sum_to_zero. Qed.
Theorem C11_poly_columns_unit_length : forall xs degree k d, nz xs degree -> (k <= degree)%nat ->
  let st := train xs (S degree) in (d * d = nth k (snd st) 0)%Qc ->
  sumq (map (fun x => (evalP (fst st) (snd st) k x / d) * (evalP (fst st) (snd st) k x / d))%Qc xs) = 1%Qc.
Proof. exact fitted_columns_unit_length. Qed.
(* ... hence the explicit inverse: X = [1 | P_1/d_1 .. P_degree/d_degree] with d_k^2 = norms2_k has X^T X = diag(n, 1, .., 1), so the coefficient
   matrix diag(1/n, 1, .., 1) X^T is the inverse of [1 | coding] *)
Theorem C11_poly_coefficients_are_inverse : forall xs degree (d : nat -> Qc) j k, nz xs degree -> (j <= degree)%nat -> (k <= degree)%nat ->
  let st := train xs (S degree) in
  d 0%nat = 1%Qc -> (forall i, (1 <= i <= degree)%nat -> (d i * d i = nth i (snd st) 0)%Qc) ->
  sumq (map (fun x => (evalP (fst st) (snd st) j x / d j) * (evalP (fst st) (snd st) k x / d k))%Qc xs)
  = if Nat.eqb j k then (if Nat.eqb j 0 then sumq (map (fun _ => 1%Qc) xs) else 1%Qc) else 0%Qc.
Proof. exact fitted_gram_full. Qed.
Theorem C11_poly_columns_monic : forall xs k, exists c, length c = k /\ forall x, P xs k x = (qpow x k + peval c x)%Qc.
Proof. intros xs k. exact (proj1 (P_monic xs k)). Qed.

(* non-vacuity: R's contr.helmert(4) *)
Example C11_example : map (fun r => map (helmert_rev r) [0; 1; 2]%nat) [0; 1; 2; 3]%nat = [[-1; -1; -1]; [1; -1; -1]; [0; 2; -1]; [0; 0; 3]].
Proof. vm_compute. reflexivity. Qed.

Print Assumptions C11_full_coding_is_identity.
Print Assumptions C11_sum_columns_sum_to_zero.
Print Assumptions C11_helmert_columns_sum_to_zero.
Print Assumptions C11_helmert_forward_columns_sum_to_zero.
Print Assumptions C11_scaled_columns_sum_to_zero.
Print Assumptions C11_diff_columns_sum_to_zero.
Print Assumptions C11_diff_forward_columns_sum_to_zero.
Print Assumptions C11_treatment_coefficients_are_inverse.
Print Assumptions C11_sum_coefficients_are_inverse.
Print Assumptions C11_diff_coefficients_are_inverse_const.
Print Assumptions C11_diff_coefficients_are_inverse_coding.
Print Assumptions C11_helmert_orthogonal_columns.
Print Assumptions C11_helmert_forward_orthogonal_columns.
Print Assumptions C11_helmert_coefficients_are_inverse.
Print Assumptions C11_helmert_forward_coefficients_are_inverse.
Print Assumptions C11_treatment_is_column_mask.
Print Assumptions C11_encoding_is_row_selection.
Print Assumptions C11_poly_columns_orthogonal.
Print Assumptions C11_poly_columns_sum_to_zero.
Print Assumptions C11_poly_columns_unit_length.
Print Assumptions C11_poly_coefficients_are_inverse.
Print Assumptions C11_poly_columns_monic.
Print Assumptions C11_example.
