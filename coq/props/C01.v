(* ===== C01 : formula strings denote the documented Wilkinson term algebra ===== *)
From Coq Require Import List NArith ZArith Bool Arith.
Import ListNotations.
Require Import GenOps Tok Parser Parser2 Parser3 SYReal SYInst TermAlg GenTie FormulaSeq FormulaSeqLaws Denote.
Open Scope N_scope.

(* --- the operator table of the model is the one /repo defines now (precedence, associativity, arity, fixity, context rule,
       structural and disabled flags, resolution order), for each feature-flag subset --- *)
Theorem C01_operator_table_is_the_code's : forall two parts stage,
  map raw_of (table {| f_two := two; f_parts := parts; f_stage := stage |}) = raw_table two parts stage.
Proof. exact table_matches_generated. Qed.

(* --- layer B: the shunting-yard machine parses the token sequence of EVERY expression tree that respects the precedence
       table to that tree: unbounded nesting, both bracket kinds, prefix operators, the arity-0 '.', any flags --- *)
Theorem C01_expression_trees_parse_to_themselves : forall fixed f e,
  ok f e -> to_ast fixed f (toks e) = inl (Some (ast_of e)).
Proof. exact inner_complete. Qed.
(* ... any number of '|'-separated parts ... *)
Theorem C01_parts_parse : forall fixed ps,
  ps <> [] -> Forall (part_ok fl (getop SBar)) ps ->
  to_ast fixed fl (toksP (getop SBar) ps) = inl (Some (barsA (getop SBar) ps)).
Proof. exact parts_complete_default. Qed.
(* ... and two-sided formulas  l1 | ... | lm ~ r1 | ... | rn *)
Theorem C01_two_sided_parse : forall fixed ls rs,
  ls <> [] -> rs <> [] -> Forall (part_ok fl (getop SBar)) ls -> Forall (part_ok fl (getop SBar)) rs ->
  to_ast fixed fl (toksP (getop SBar) ls ++ optok (getop STilde2) :: toksP (getop SBar) rs)
  = inl (Some (ANode (getop STilde2) [barsA (getop SBar) ls; barsA (getop SBar) rs])).
Proof. exact two_sided_complete_default. Qed.
(* the side conditions [ok] are decidable, so hypotheses are discharged by computation *)
Theorem C01_ok_decidable : forall f e, okb f e = true -> ok f e.
Proof. exact okb_ok. Qed.
(* non-vacuity:  y ~ -a + b*(c-d):a**2**3/. | d %in% c  meets every hypothesis under the default table *)
Example C01_example_two_sided : forall fixed,
  to_ast fixed fl (toksP (getop SBar) [Y] ++ optok (getop STilde2) :: toksP (getop SBar) [rhs1; rhs2])
  = inl (Some (ANode (getop STilde2) [barsA (getop SBar) [Y]; barsA (getop SBar) [rhs1; rhs2]])).
Proof. exact two_sided_example. Qed.

(* --- layer A: documented identities, for ALL ordered term sets --- *)
Theorem C01_star_is_plus_plus_colon : forall cx a b,
  apply_op cx (sem_op SStar) [v a; v b] =
  bind (apply_op cx (sem_op SPlus) [v a; v b]) (fun ab =>
  bind (apply_op cx (sem_op SColon) [v a; v b]) (fun c => apply_op cx (sem_op SPlus) [ab; c])).
Proof. exact star_via_operators. Qed.
Theorem C01_in_is_slash_flipped : forall cx a b,
  apply_op cx (sem_op SIn) [v b; v a] = apply_op cx (sem_op SSlash) [v a; v b].
Proof. exact in_is_slash_flipped. Qed.
Theorem C01_slash_single_parent : forall cx t b,
  apply_op cx (sem_op SSlash) [v [t]; v b] = inl (v (union [t] (cross [t] b))).
Proof. exact slash_single_parent. Qed.
Theorem C01_caret_is_power : forall f,
  map (fun o => (oarity o, oprec o, oassoc o, ofix o, octx o, odis o, osem o)) (candidates f [94]) =
  map (fun o => (oarity o, oprec o, oassoc o, ofix o, octx o, odis o, osem o)) (candidates f [42; 42]).
Proof. exact caret_is_power. Qed.
Theorem C01_plus_is_union : forall cx a b t,
  match apply_op cx (sem_op SPlus) [v a; v b] with
  | inl (VSide (SSet s)) => mem_t t s = mem_t t a || mem_t t b
  | _ => False end.
Proof. exact plus_membership. Qed.
Theorem C01_minus_is_difference_in_order : forall cx a b,
  apply_op cx (sem_op SMinus) [v a; v b] = inl (v (filter (fun t => negb (mem_t t b)) a)).
Proof. exact minus_keeps_order. Qed.
Example C01_power_two_of_three :
  power [nm 97; nm 98; nm 99] [[{| tx := [50]; kd := KValue |}]] =
  inl [nm 97; nm 97 ++ nm 98; nm 97 ++ nm 99; nm 98; nm 98 ++ nm 99; nm 99].
Proof. exact power_two_of_three. Qed.

(* --- layers A and B composed: [denote] is the documented algebra written directly on expression trees ('+' union in first-appearance order,
       '-' difference, ':' pairwise products, '*' = a + b + a:b, '/' nesting, '%in%' flipped nesting, '**'/'^' powers, unary signs, '.',
       parentheses transparent).  The token sequence of EVERY precedence-respecting inner expression tree (unbounded nesting) is parsed and
       evaluated by the parser model to exactly the denotation of the tree --- *)
Theorem C01_tokens_denote : forall fixed f cx e, ok f e -> inner e ->
  match to_ast fixed f (toks e) with
  | inl (Some a) => eval (S (asize a)) cx a
  | inl None => inl (VSide (SSet []))
  | inr err => inr err
  end = lift (denote cx e).
Proof. exact tokens_denote. Qed.
Theorem C01_tree_evaluates_to_denotation : forall cx e, inner e -> forall fuel, (depth (ast_of e) < fuel)%nat ->
  eval fuel cx (ast_of e) = lift (denote cx e).
Proof. exact eval_denotes. Qed.
(* the documented identities as equalities between the denotations of whole trees (any sub-expressions a, b) *)
Theorem C01_tree_star_identity : forall cx star plus colon a b, osem star = SStar -> osem plus = SPlus -> osem colon = SColon ->
  denote cx (EBin star a b) = denote cx (EBin plus (EBin plus a b) (EBin colon a b)).
Proof. exact denote_star. Qed.
Theorem C01_tree_in_identity : forall cx o_in slash a b x y, osem o_in = SIn -> osem slash = SSlash -> denote cx a = inl x -> denote cx b = inl y ->
  denote cx (EBin o_in b a) = denote cx (EBin slash a b).
Proof. exact denote_in. Qed.
Theorem C01_tree_slash_identity : forall cx slash plus colon a b t, osem slash = SSlash -> osem plus = SPlus -> osem colon = SColon ->
  denote cx a = inl [t] -> denote cx (EBin slash a b) = denote cx (EBin plus a (EBin colon a b)).
Proof. exact denote_slash_single. Qed.
Theorem C01_tree_caret_identity : forall cx p1 p2 a b, osem p1 = SPow -> osem p2 = SPow -> denote cx (EBin p1 a b) = denote cx (EBin p2 a b).
Proof. exact denote_caret. Qed.
(* non-vacuity: (a + b):c - a  has its hypotheses and denotes {b:c} *)
Example C01_tokens_denote_example : forall fixed,
  let e := bin SMinus (bin SColon (EPar false (bin SPlus A B)) C) A in
  ok fl e /\ inner e /\
  (match to_ast fixed fl (toks e) with inl (Some a) => eval (S (asize a)) {| avail := None; used_lhs := Some [] |} a | inl None => inl (VSide (SSet [])) | inr err => inr err end)
  = inl (VSide (SSet [nm 97 ++ nm 99; nm 98 ++ nm 99])).
Proof.
  intro fixed. cbn zeta. split; [apply okb_ok; vm_compute; reflexivity|]. split; [vm_compute; intuition|].
  rewrite (tokens_denote fixed fl); [vm_compute; reflexivity | apply okb_ok; vm_compute; reflexivity | vm_compute; intuition].
Qed.

(* --- final ordering by interaction degree: a stable sort --- *)
Theorem C01_degree_order_sorted : forall l, deg_sorted (sort_deg l) = true.
Proof. exact sort_deg_sorted. Qed.
Theorem C01_degree_order_stable : forall d l, of_deg d (sort_deg l) = of_deg d l.
Proof. exact sort_deg_stable. Qed.

(* the collapse as originally coded read 'a:--b' as 'a + b': regression witness on the model's two variants *)
Example C01_collapse_regression :
  collapse false [58; 45; 45] 4 = [43] /\ collapse true [58; 45; 45] 4 = [58; 43].
Proof. split; vm_compute; reflexivity. Qed.

Print Assumptions C01_tokens_denote.
Print Assumptions C01_tree_evaluates_to_denotation.
Print Assumptions C01_tree_star_identity.
Print Assumptions C01_tree_in_identity.
Print Assumptions C01_tree_slash_identity.
Print Assumptions C01_tree_caret_identity.
Print Assumptions C01_tokens_denote_example.
Print Assumptions C01_operator_table_is_the_code's.
Print Assumptions C01_expression_trees_parse_to_themselves.
Print Assumptions C01_parts_parse.
Print Assumptions C01_two_sided_parse.
Print Assumptions C01_ok_decidable.
Print Assumptions C01_example_two_sided.
Print Assumptions C01_star_is_plus_plus_colon.
Print Assumptions C01_in_is_slash_flipped.
Print Assumptions C01_slash_single_parent.
Print Assumptions C01_caret_is_power.
Print Assumptions C01_plus_is_union.
Print Assumptions C01_minus_is_difference_in_order.
Print Assumptions C01_power_two_of_three.
Print Assumptions C01_degree_order_sorted.
Print Assumptions C01_degree_order_stable.
Print Assumptions C01_collapse_regression.
