(* ===== C05 : output types, entry points and materializers agree ===== *)
From Coq Require Import List NArith ZArith QArith Qcanon Bool Arith.
Import ListNotations.
Require Import GenEntry Struct Sparse SparseLaws SparseTerm GenTie.
Open Scope nat_scope.

(* sparse refines dense: the element-wise product of sparse columns holds, at every row, the product of the dense cells *)
Theorem C05_sparse_product_refines_dense : forall a b i, NoDup (map fst a) -> sp_get (sp_mul a b) i = (sp_get a i * sp_get b i)%Qc.
Proof. exact sp_mul_get. Qed.
Theorem C05_densify_product : forall n a b, NoDup (map fst a) ->
  densify n (sp_mul a b) = map (fun p => (fst p * snd p)%Qc) (combine (densify n a) (densify n b)).
Proof. exact densify_mul. Qed.
Theorem C05_sparse_scale_refines_dense : forall s a i, sp_get (sp_scale s a) i = (s * sp_get a i)%Qc.
Proof. exact sp_scale_get. Qed.
(* a dense column converted to CSC holds the same numbers *)
Theorem C05_sparse_of_dense : forall c s i, sp_get (sp_of_dense c s) (s + i) = nth i c (Q2Qc 0).
Proof. exact sp_of_dense_get. Qed.
(* the sparse dummy column of level k is the indicator of code k (nulls and unknown levels: all zero) *)
Theorem C05_sparse_dummies_are_indicators : forall codes k s i,
  sp_get (sp_dummy codes k s) (s + i) = match nth_error codes i with Some (Some c) => if c =? k then Q2Qc 1 else Q2Qc 0 | _ => Q2Qc 0 end.
Proof. exact sp_dummy_get. Qed.
(* entry points: every call edge forwards the caller's drop_rows (table regenerated from /repo each run) *)
Theorem C05_entry_points_forward : forallb (fun e => match e with (_, _, _, fwd_drop, _) => fwd_drop end) entry_edges = true.
Proof. exact entry_points_forward_drop_rows. Qed.

Example C05_example :
  densify 3 (sp_mul [(0, Q2Qc 2); (2, Q2Qc 3)] [(2, Q2Qc 5); (1, Q2Qc 7)]) = [Q2Qc 0; Q2Qc 0; Q2Qc 15].
Proof. vm_compute. reflexivity. Qed.

(* the whole column of a term, for ANY number of factors: `scale * functools.reduce(csc_matrix.multiply, factor columns)` holds at every row
   scale times the product of the factors' cells -- exactly what `scale * functools.reduce(numpy.multiply, ...)` computes on the dense path.
   The side condition (each row stored at most once) is an invariant: every primitive column satisfies it and the product keeps it. *)
Theorem C05_sparse_term_column_refines_dense : forall scale first rest i, spwf first ->
  sp_get (sp_scale scale (sp_prod first rest)) i = (scale * qprod (sp_get first i) (map (fun c => sp_get c i) rest))%Qc.
Proof. exact sp_term_get. Qed.
Theorem C05_sparse_columns_wellformed : forall a b s v n c k codes st,
  (spwf a -> spwf (sp_mul a b)) /\ (spwf a -> spwf (sp_scale s a)) /\ spwf (sp_const v n) /\ spwf (sp_of_dense c st) /\ spwf (sp_dummy codes k st).
Proof. exact sp_cols_wf. Qed.
Theorem C05_sparse_term_column_wellformed : forall first rest, spwf first -> spwf (sp_prod first rest).
Proof. exact sp_prod_wf. Qed.
(* and the product never stores a row its first factor does not store *)
Theorem C05_sparse_term_column_stays_sparse : forall first rest i, In i (map fst (sp_prod first rest)) -> In i (map fst first).
Proof. exact sp_prod_rows. Qed.
Example C05_term_example :
  densify 3 (sp_scale (Q2Qc 2) (sp_prod (sp_dummy [Some 0; Some 1; Some 0] 0 0) [sp_of_dense [Q2Qc 3; Q2Qc 4; Q2Qc 0] 0; sp_const (Q2Qc 5) 3]))
  = [Q2Qc 30; Q2Qc 0; Q2Qc 0].
Proof. vm_compute. reflexivity. Qed.

(* the whole term as `_get_columns_for_term` builds it on the sparse path (`sp_term_cols`, compared with the real method on synthetic CSC
   factor columns in the `sparse` stream): at EVERY row, names and cells are the Kronecker product of that row's factor cells times the
   scale -- the dense path's computation -- for any number of factors with any number of columns each *)
Theorem C05_sparse_term_is_rowwise_kronecker : forall scale i fs, Forall (Forall (fun nc => spwf (snd nc))) fs ->
  row_of i (sp_term_cols scale fs) = map (fun nc => (fst nc, (scale * snd nc)%Qc)) (ckron (map (row_of i) fs)).
Proof. exact sp_term_cols_rowwise. Qed.
Example C05_kron_example :
  let A := [([65]%N, [(0, Q2Qc 1)]); ([66]%N, [(1, Q2Qc 1)])] in let x := [([120]%N, [(0, Q2Qc 3); (1, Q2Qc 4)])] in
  sp_term_cols (Q2Qc 2) [A; x] = [([65; 58; 120]%N, [(0, Q2Qc 6)]); ([66; 58; 120]%N, [(1, Q2Qc 8)])].
Proof. vm_compute. reflexivity. Qed.

Print Assumptions C05_sparse_term_is_rowwise_kronecker.
Print Assumptions C05_kron_example.
Print Assumptions C05_sparse_term_column_refines_dense.
Print Assumptions C05_sparse_columns_wellformed.
Print Assumptions C05_sparse_term_column_wellformed.
Print Assumptions C05_sparse_term_column_stays_sparse.
Print Assumptions C05_term_example.
Print Assumptions C05_sparse_product_refines_dense.
Print Assumptions C05_densify_product.
Print Assumptions C05_sparse_scale_refines_dense.
Print Assumptions C05_sparse_of_dense.
Print Assumptions C05_sparse_dummies_are_indicators.
Print Assumptions C05_entry_points_forward.
Print Assumptions C05_example.
