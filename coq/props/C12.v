(* ===== C12 : spline transforms reproduce the mathematical bases they name ===== *)
From Coq Require Import List QArith Bool Arith.
Import ListNotations.
Require Import BSpline BSplineLaws CubicSpline CubicLaws CubicUnique KnotsOk.
Open Scope Q_scope.

(* ---- B-splines: for every recorded knot vector that is sorted and padded (knots_ok, checked on every case), every degree, every x ---- *)
Theorem C12_bs_nonnegative : forall kn degree, knots_ok kn degree = true ->
  forall i x, 0 <= B (kfun kn) (length kn) degree false degree i x.
Proof. exact bs_nonneg. Qed.
Theorem C12_bs_sums_to_one_inside_bounds : forall kn degree, knots_ok kn degree = true ->
  forall x, kfun kn degree <= x -> x <= kfun kn (length kn - degree - 1) ->
  sum (length kn - 1 - degree) (fun i => B (kfun kn) (length kn) degree false degree i x) == 1.
Proof. exact bs_partition_of_unity. Qed.
(* df columns *)
Theorem C12_bs_df_columns : forall lb xs ub degree (intercept : bool) df mode x cells,
  (degree + (if intercept then 1 else 0) <= df)%nat ->
  let nknots := (df - degree - (if intercept then 1 else 0))%nat in
  bs_row (pad_knots lb (df_knots xs nknots) ub degree) degree intercept mode x = Some (Some cells) -> length cells = df.
Proof. exact df_columns. Qed.
Theorem C12_bs_columns_from_knots : forall kn degree intercept mode x cells,
  bs_row kn degree intercept mode x = Some (Some cells) ->
  length cells = (length kn - degree - 1 - (if intercept then 0 else 1))%nat.
Proof. exact bs_row_columns. Qed.
(* extrapolation modes: 'zero' is what the recursion gives outside the bounds; 'clip' evaluates inside; 'extend' is the same function
   inside and continues the polynomial piece of the first / last proper interval outside *)
Theorem C12_bs_zero_outside_bounds : forall kn degree, knots_ok kn degree = true ->
  forall i x, x < kfun kn degree \/ kfun kn (length kn - degree - 1) < x -> B (kfun kn) (length kn) degree false degree i x == 0.
Proof. exact bs_zero_outside. Qed.
Theorem C12_bs_clip_is_inside : forall lb ub x, lb <= ub -> lb <= clampq lb ub x /\ clampq lb ub x <= ub.
Proof. exact clamp_inside. Qed.
Theorem C12_bs_extend_same_inside : forall kn degree, knots_ok kn degree = true ->
  forall i x, kfun kn degree <= x -> x <= kfun kn (length kn - degree - 1) ->
  B (kfun kn) (length kn) degree true degree i x = B (kfun kn) (length kn) degree false degree i x.
Proof. exact bs_extend_inside. Qed.
Theorem C12_bs_extend_above_is_last_piece : forall kn degree, knots_ok kn degree = true ->
  forall i x, kfun kn (length kn - degree - 1) < x ->
  B (kfun kn) (length kn) degree true degree i x = Bpiece (kfun kn) (length kn - degree - 2) degree i x.
Proof. exact bs_extend_above. Qed.
Theorem C12_bs_extend_below_is_first_piece : forall kn degree, knots_ok kn degree = true ->
  forall i x, x < kfun kn degree -> B (kfun kn) (length kn) degree true degree i x = Bpiece (kfun kn) degree degree i x.
Proof. exact bs_extend_below. Qed.
Theorem C12_bs_last_interval_is_that_piece : forall kn degree, knots_ok kn degree = true ->
  forall i x, kfun kn (length kn - degree - 2) <= x -> x <= kfun kn (length kn - degree - 1) ->
  B (kfun kn) (length kn) degree false degree i x = Bpiece (kfun kn) (length kn - degree - 2) degree i x.
Proof. exact bs_last_interval_piece. Qed.

(* ---- cubic regression splines: strictly increasing recorded knots ---- *)
(* cardinal: the row at knot m is the m-th unit vector (cyclic: the last knot is the first), for ANY second-derivative map *)
Theorem C12_natural_identity_at_knots : forall kn, (2 <= length kn)%nat ->
  (forall i, (S i < length kn)%nat -> Kq kn i < Kq kn (S i)) ->
  forall F m, (m < length kn)%nat -> Forall2 Qeq (free_row kn F false (Kq kn m)) (unit_row (length kn) m).
Proof. exact natural_identity_at_knots. Qed.
Theorem C12_cyclic_identity_at_knots : forall kn, (2 <= length kn)%nat ->
  (forall i, (S i < length kn)%nat -> Kq kn i < Kq kn (S i)) ->
  forall F m, (m < length kn)%nat ->
  Forall2 Qeq (free_row kn F true (Kq kn m)) (unit_row (length kn - 1) (if Nat.eqb m (length kn - 1) then 0 else m)).
Proof. exact cyclic_identity_at_knots. Qed.
(* between the knots each column is the cubic with the prescribed values and second derivatives at the interval ends *)
Theorem C12_natural_row_is_the_interval_cubic : forall kn (F : nat -> nat -> Q) x,
  (2 <= length kn)%nat -> (forall i, (S i < length kn)%nat -> Kq kn i < Kq kn (S i)) ->
  Kq kn 0 <= x -> x <= Kq kn (length kn - 1) ->
  let j := lower_ix kn x in
  Forall2 Qeq (free_row kn F false x)
              (map (fun k => piece (Kq kn j) (Kq kn (S j)) (delta j k) (delta (S j) k) (F j k) (F (S j) k) x) (seq 0 (length kn))).
Proof. exact free_row_is_piece. Qed.
Theorem C12_cubic_piece_taylor : forall k0 k1 y0 y1 g0 g1, ~ k1 - k0 == 0 -> forall x t,
  piece k0 k1 y0 y1 g0 g1 (x + t) == piece k0 k1 y0 y1 g0 g1 x + t * piece_d1 k0 k1 y0 y1 g0 g1 x
                                     + t * t / 2 * piece_d2 k0 k1 g0 g1 x + t * t * t / 6 * piece_d3 k0 k1 g0 g1.
Proof. exact piece_taylor. Qed.
Theorem C12_cubic_piece_ends : forall k0 k1 y0 y1 g0 g1, ~ k1 - k0 == 0 ->
  piece k0 k1 y0 y1 g0 g1 k0 == y0 /\ piece k0 k1 y0 y1 g0 g1 k1 == y1 /\ piece_d2 k0 k1 g0 g1 k0 == g0 /\ piece_d2 k0 k1 g0 g1 k1 == g1.
Proof. exact piece_ends. Qed.
(* C1 at an interior knot <=> the tridiagonal equation the code solves for F (checked exactly on every case by natural_F_ok) *)
Theorem C12_c1_iff_tridiagonal : forall ka kb kc ya yb yc ga gb gc, ~ kb - ka == 0 -> ~ kc - kb == 0 ->
  (piece_d1 ka kb ya yb ga gb kb == piece_d1 kb kc yb yc gb gc kb
   <-> (kb - ka) / 6 * ga + ((kb - ka) + (kc - kb)) / 3 * gb + (kc - kb) / 6 * gc == (yc - yb) / (kc - kb) - (yb - ya) / (kb - ka)).
Proof. exact c1_iff_tridiagonal. Qed.
Theorem C12_natural_F_check_is_sound : forall kn F, natural_F_ok kn F = true ->
  (forall k, (k < length kn)%nat -> F 0%nat k == 0 /\ F (length kn - 1)%nat k == 0) /\
  (forall m k, (1 <= m)%nat -> (S m < length kn)%nat -> (k < length kn)%nat ->
     hq kn (m - 1) / 6 * F (m - 1)%nat k + (hq kn (m - 1) + hq kn m) / 3 * F m k + hq kn m / 6 * F (S m) k == nat_D kn m k).
Proof. exact natural_F_ok_sound. Qed.
(* cyclic splines: the same with indices modulo n; the wrap-around node joins the last and the first interval *)
Theorem C12_c1_iff_tridiagonal_any_two_intervals : forall ka kb kb' kc ya yb yc ga gb gc, ~ kb - ka == 0 -> ~ kc - kb' == 0 ->
  (piece_d1 ka kb ya yb ga gb kb == piece_d1 kb' kc yb yc gb gc kb'
   <-> (kb - ka) / 6 * ga + ((kb - ka) + (kc - kb')) / 3 * gb + (kc - kb') / 6 * gc == (yc - yb) / (kc - kb') - (yb - ya) / (kb - ka)).
Proof. exact c1_iff_general. Qed.
Theorem C12_cyclic_F_check_is_sound : forall kn F, cyclic_F_ok kn F = true ->
  let n := (length kn - 1)%nat in
  forall m k, (m < n)%nat -> (k < n)%nat ->
    hq kn (prevn n m) / 6 * F (prevn n m) k + (hq kn (prevn n m) + hq kn m) / 3 * F m k + hq kn m / 6 * F (nextn n m) k == cyc_D kn n m k.
Proof. exact cyclic_F_ok_sound. Qed.
(* centering: with c the column means of the training design matrix and Q2 orthogonal to c, every column of M.Q2 has zero mean *)
Theorem C12_centering_gives_zero_column_means : forall r n (M Q2 : nat -> nat -> Q) j, (0 < r)%nat ->
  let c k := qsum r (fun i => M i k) / inject_Z (Z.of_nat r) in
  qsum n (fun k => c k * Q2 k j) == 0 -> qsum r (fun i => qsum n (fun k => M i k * Q2 k j)) == 0.
Proof. exact centering_absorbed. Qed.

(* non-vacuity: a cubic knot vector with two inner knots passes the shape check; F for four knots passes the tridiagonal check *)
Example C12_example : knots_ok (pad_knots 0 [1; 3] 7 3) 3 = true /\
  match natural_F [0; 1; 3; 7] with Some F => natural_F_ok [0; 1; 3; 7] (mfun F) | None => false end = true.
Proof. vm_compute. split; reflexivity. Qed.

(* the checkable predicate under which the B-spline theorems hold is met by EVERY padded knot vector built from inner knots that are
   non-decreasing and lie within the bounds (explicit `knots=`, any degree): the theorems then hold without evaluating the predicate *)
Theorem C12_padded_knots_are_ok : forall lb inner ub degree, lb <= ub -> nondec inner -> within lb ub inner ->
  knots_ok (pad_knots lb inner ub degree) degree = true.
Proof. exact pad_knots_ok. Qed.

(* ... and the basis is THE cardinal basis: when the knots increase strictly the defining systems are strictly diagonally dominant, so their
   solution is unique -- any two matrices F, F' passing the checkable predicates agree entry by entry (natural and periodic) *)
Theorem C12_natural_F_unique : forall kn F F', (2 <= length kn)%nat -> (forall i, (S i < length kn)%nat -> Kq kn i < Kq kn (S i)) ->
  natural_F_ok kn F = true -> natural_F_ok kn F' = true ->
  forall m k, (m < length kn)%nat -> (k < length kn)%nat -> F m k == F' m k.
Proof. exact natural_F_unique. Qed.
Theorem C12_cyclic_F_unique : forall kn F F', (2 <= length kn)%nat -> (forall i, (S i < length kn)%nat -> Kq kn i < Kq kn (S i)) ->
  cyclic_F_ok kn F = true -> cyclic_F_ok kn F' = true ->
  forall m k, (m < length kn - 1)%nat -> (k < length kn - 1)%nat -> F m k == F' m k.
Proof. exact cyclic_F_unique. Qed.

(* non-vacuity: for the knots 0, 1, 3, 4 the matrix the model computes passes the predicate, and the knots increase strictly; likewise the periodic one *)
Example C12_unique_example :
  let kn := [0; 1; 3; 4] in
  (match natural_F kn with Some F => natural_F_ok kn (mfun F) | None => false end) = true /\
  (match cyclic_F kn with Some F => cyclic_F_ok kn (mfun F) | None => false end) = true /\ strictly_increasing kn = true.
Proof. vm_compute. repeat split; reflexivity. Qed.

Print Assumptions C12_unique_example.
Print Assumptions C12_padded_knots_are_ok.
Print Assumptions C12_natural_F_unique.
Print Assumptions C12_cyclic_F_unique.
Print Assumptions C12_bs_nonnegative.
Print Assumptions C12_bs_sums_to_one_inside_bounds.
Print Assumptions C12_bs_df_columns.
Print Assumptions C12_bs_columns_from_knots.
Print Assumptions C12_bs_zero_outside_bounds.
Print Assumptions C12_bs_clip_is_inside.
Print Assumptions C12_bs_extend_same_inside.
Print Assumptions C12_bs_extend_above_is_last_piece.
Print Assumptions C12_bs_extend_below_is_first_piece.
Print Assumptions C12_bs_last_interval_is_that_piece.
Print Assumptions C12_natural_identity_at_knots.
Print Assumptions C12_cyclic_identity_at_knots.
Print Assumptions C12_natural_row_is_the_interval_cubic.
Print Assumptions C12_cubic_piece_taylor.
Print Assumptions C12_cubic_piece_ends.
Print Assumptions C12_c1_iff_tridiagonal.
Print Assumptions C12_natural_F_check_is_sound.
Print Assumptions C12_c1_iff_tridiagonal_any_two_intervals.
Print Assumptions C12_cyclic_F_check_is_sound.
Print Assumptions C12_centering_gives_zero_column_means.
Print Assumptions C12_example.
