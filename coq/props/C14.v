(* ===== C14 : any input string is parsed or rejected with the library's parsing error ===== *)
From Coq Require Import List NArith ZArith Bool Arith.
Import ListNotations.
Require Import GenOps Tok Classify Parser Parser2 Parser3 ParserTotal ParserDisabled ParserSorted GenTie.
Open Scope N_scope.

(* The parser model is a total function: termination is by construction (structural recursion / explicit fuel). *)

(* Building the AST from ANY token list, under ANY feature flags, returns an AST or raises the syntax error:
   no AttributeError / IndexError / ... and no plain SyntaxError. *)
Theorem C14_ast_builder_total_and_clean : forall fixed f ts, clean (to_ast fixed f ts).
Proof. exact to_ast_clean. Qed.

(* For every input string, configuration, variable list and classifier: no internal exception class escapes; the only internal
   outcome of the MODEL is its stuck marker 5 (an operator applied to ill-sorted operands, e.g. a structured value inside ':'). *)
Theorem C14_internal_errors_do_not_escape : forall fixed intercept f av bad pn pv cl s n,
  fragments_only_syntax_errors bad ->
  get_terms fixed intercept f av bad pn pv cl s = inr (EInternal n) ->
  n = 5%nat.
Proof. exact get_terms_internal_errors. Qed.

(* ... and with MULTISTAGE off (the default configuration; with it the model only covers acceptance, see the example below) the stuck marker is
   unreachable too: the context rules of '~' and '|' confine structured values to the top of the tree, so EVERY AST the machine returns is
   well-sorted (set operators get term sets, '|' and '~' get term sets or tuples, every node has its operator's arity), and the evaluator
   never gets stuck on a well-sorted AST.  Hence: for every input string, configuration, variable list and classifier NO internal exception
   class escapes from the parser model. *)
Theorem C14_parsed_trees_are_well_sorted : forall f, f_stage f = false -> forall fixed ts a, to_ast fixed f ts = inl (Some a) -> ws a.
Proof. exact to_ast_well_sorted. Qed.
Theorem C14_well_sorted_trees_never_stuck : forall cx a, ws a -> match eval (S (asize a)) cx a with inr (EInternal 5) => False | _ => True end.
Proof. exact eval_ws_not_stuck. Qed.
Theorem C14_no_internal_error_escapes : forall fixed intercept f av bad pn pv cl s n,
  f_stage f = false -> fragments_only_syntax_errors bad ->
  get_terms fixed intercept f av bad pn pv cl s <> inr (EInternal n).
Proof. exact get_terms_never_internal. Qed.
(* with MULTISTAGE on the model does get stuck ('[a ~ b] + c'; the implementation raises NotImplementedError there -- a recorded finding): the
   hypothesis f_stage f = false cannot be dropped *)
Example C14_multistage_is_outside :
  get_terms true true {| f_two := true; f_parts := true; f_stage := true |} None [] [] [] (classify_with []) [91;97;32;126;32;98;93;32;43;32;99] = inr (EInternal 5).
Proof. vm_compute. reflexivity. Qed.

(* A plain SyntaxError only when an embedded Python fragment is itself syntactically invalid. *)
Theorem C14_plain_syntax_error_only_for_invalid_fragment : forall fixed intercept f av bad pn pv cl s,
  get_terms fixed intercept f av bad pn pv cl s = inr EPySyntax -> exists frag, In (frag, O) bad.
Proof. exact get_terms_pysyntax. Qed.

(* Operators disabled by the parser's feature flags are always rejected: whatever the token list, every operator of a returned AST
   belongs to the table of these flags and is not disabled ... *)
Theorem C14_disabled_operators_never_in_ast : forall fixed f ts a, to_ast fixed f ts = inl (Some a) -> no_dis (enabled f) a.
Proof. exact disabled_never_in_ast. Qed.
(* ... so with a feature switched off its construct cannot be parsed: no two-sided formula, no '|' parts, no nested stages *)
Theorem C14_twosided_off : forall fixed f ts a, f_two f = false -> to_ast fixed f ts = inl (Some a) -> ~ uses STilde2 a.
Proof. exact twosided_off_no_two_sided_formula. Qed.
Theorem C14_multipart_off : forall fixed f ts a, f_parts f = false -> to_ast fixed f ts = inl (Some a) -> ~ uses SBar a.
Proof. exact multipart_off_no_parts. Qed.
Theorem C14_multistage_off : forall fixed f ts a, f_stage f = false -> to_ast fixed f ts = inl (Some a) -> ~ uses SMulti a.
Proof. exact multistage_off_no_stages. Qed.

(* the operator table the theorems speak about is the one /repo defines now *)
Theorem C14_operator_table_is_the_code's : forall two parts stage,
  map raw_of (table {| f_two := two; f_parts := parts; f_stage := stage |}) = raw_table two parts stage.
Proof. exact table_matches_generated. Qed.

(* "y ~ ." with include_intercept=False used to escape as KeyError (class 6); since the repair in /repo it parses *)
Example C14_dot_without_intercept_parses :
  exists v, get_terms true false {| f_two := true; f_parts := true; f_stage := false |} (Some [[97]]) [] [] [] (classify_with [])
            [121; 32; 126; 32; 46] = inl v.
Proof. eexists. vm_compute. reflexivity. Qed.
(* non-vacuity: the same string parses under the default configuration *)
Example C14_example_parses :
  exists v, get_terms true true {| f_two := true; f_parts := true; f_stage := false |} (Some [[97]]) [] [] [] (classify_with [])
            [121; 32; 126; 32; 46] = inl v.
Proof. eexists. vm_compute. reflexivity. Qed.

Print Assumptions C14_ast_builder_total_and_clean.
Print Assumptions C14_internal_errors_do_not_escape.
Print Assumptions C14_parsed_trees_are_well_sorted.
Print Assumptions C14_well_sorted_trees_never_stuck.
Print Assumptions C14_no_internal_error_escapes.
Print Assumptions C14_multistage_is_outside.
Print Assumptions C14_plain_syntax_error_only_for_invalid_fragment.
Print Assumptions C14_disabled_operators_never_in_ast.
Print Assumptions C14_twosided_off.
Print Assumptions C14_multipart_off.
Print Assumptions C14_multistage_off.
Print Assumptions C14_operator_table_is_the_code's.
Print Assumptions C14_dot_without_intercept_parses.
Print Assumptions C14_example_parses.
