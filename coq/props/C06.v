(* ===== C06 : missing-data policy ===== *)
From Coq Require Import List NArith ZArith QArith Qcanon Bool Arith Permutation.
Import ListNotations.
Require Import GenEntry Mat MatDrop GenTie.
Open Scope nat_scope.

(* D = caller's set  u  null positions of every EVALUATED factor (drop policy), exactly *)
Theorem C06_drop_set_exact : forall c evs k,
  In k (drop_set c evs) <-> In k (caller_drop c) \/ (na_action c = NaDrop /\ is_null_at evs k).
Proof. exact drop_set_exact. Qed.
Theorem C06_drop_set_sorted_distinct : forall c evs, strictly_sorted (drop_set c evs).
Proof. exact drop_set_sorted. Qed.
(* the set reported back is that set, for every formula, rank-reduction flag and policy *)
Theorem C06_build_reports_drop_set : forall d n c terms o,
  build d n c terms = inl o -> exists evs, eval_pool d (pool_of terms) [] = inl evs /\ o_drop o = drop_set c evs.
Proof. exact build_reports_drop_set. Qed.
(* the kept rows of every column are exactly, in order, the rows at positions outside D *)
Theorem C06_kept_rows_exact : forall (A : Type) (v : list A) drop i,
  keep_rows v drop i = map snd (filter (fun p => negb (memn (fst p) drop)) (combine (seq i (length v)) v)).
Proof. exact @keep_rows_exact. Qed.
Theorem C06_kept_row_iff_not_dropped : forall (A : Type) (v : list A) drop x,
  In x (keep_rows v drop 0) <-> exists k, nth_error v k = Some x /\ ~ In k drop.
Proof. exact @keep_rows_In. Qed.
(* raise policy: an error iff some evaluated factor has a null; other policies never raise it *)
Theorem C06_raise_iff_null : forall d n c terms evs,
  eval_pool d (pool_of terms) [] = inl evs -> na_action c = NaRaise ->
  (build d n c terms = inr ENullRaise <-> exists k, is_null_at evs k).
Proof. exact raise_iff_null. Qed.
Theorem C06_no_null_error_unless_raise : forall d n c terms, na_action c <> NaRaise -> build d n c terms <> inr ENullRaise.
Proof. exact no_null_error_unless_raise. Qed.
(* ignore policy: only the caller's rows are removed *)
Theorem C06_ignore_keeps_all : forall c evs k, na_action c = NaIgnore -> (In k (drop_set c evs) <-> In k (caller_drop c)).
Proof. exact ignore_keeps_all. Qed.
(* the order in which the (hash-ordered) factor pool is evaluated does not matter *)
Theorem C06_order_independent : forall c evs evs', Permutation evs evs' -> drop_set c evs = drop_set c evs'.
Proof. exact drop_set_order_independent. Qed.
(* every syntactic call edge between the entry points of /repo forwards the caller's drop_rows (regenerated each run) *)
Theorem C06_entry_points_forward_drop_rows :
  forallb (fun e => match e with (_, _, _, fwd_drop, _) => fwd_drop end) entry_edges = true.
Proof. exact entry_points_forward_drop_rows. Qed.

Example C06_example :
  let d := [([97]%N, CNum [Some (Q2Qc 1); None; Some (Q2Qc 3); Some (Q2Qc 4)])] in
  match build d 4 {| full_rank := true; na_action := NaDrop; caller_drop := [3] |} [[{| fx := [97]%N; fk := FLookup |}]] with
  | inl o => o_drop o = [1; 3] /\ o_cols o = [[Some (Q2Qc 1); Some (Q2Qc 3)]]
  | inr _ => False end.
Proof. vm_compute. auto. Qed.

Print Assumptions C06_drop_set_exact.
Print Assumptions C06_drop_set_sorted_distinct.
Print Assumptions C06_build_reports_drop_set.
Print Assumptions C06_kept_rows_exact.
Print Assumptions C06_kept_row_iff_not_dropped.
Print Assumptions C06_raise_iff_null.
Print Assumptions C06_no_null_error_unless_raise.
Print Assumptions C06_ignore_keeps_all.
Print Assumptions C06_order_independent.
Print Assumptions C06_entry_points_forward_drop_rows.
Print Assumptions C06_example.
