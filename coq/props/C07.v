(* ===== C07 : multi-part formulas ===== *)
From Coq Require Import List NArith ZArith QArith Qcanon Bool Arith.
Import ListNotations.
Require Import Mat MatDrop MatParts MatSep.
Open Scope nat_scope.

(* one output part per part of the formula, in order (the nested shape is restored by the same flatten/map pair as C19) *)
Theorem C07_shape_preserved : forall d n c parts outs, build_parts d n c parts = inl outs -> length outs = length parts.
Proof. exact parts_shape. Qed.
(* all parts contain the same rows: they report one common drop set ... *)
Theorem C07_parts_row_aligned : forall d n c parts outs,
  build_parts d n c parts = inl outs -> exists D, forall o, In o outs -> o_drop o = D.
Proof. exact parts_row_aligned. Qed.
(* ... which is the caller's rows together with the nulls of the factors of ALL parts *)
Theorem C07_joint_drop_set : forall d n c parts outs o k,
  build_parts d n c parts = inl outs -> In o outs ->
  exists evs, eval_pool d (pool_of (concat parts)) [] = inl evs /\
    (In k (o_drop o) <-> In k (caller_drop c) \/ (na_action c = NaDrop /\ is_null_at evs k)).
Proof. exact parts_joint_drop_set. Qed.
(* every part is assembled from the shared pool with that joint set *)
Theorem C07_parts_from_shared_pool : forall d n c parts outs,
  build_parts d n c parts = inl outs ->
  exists evs, eval_pool d (pool_of (concat parts)) [] = inl evs /\
              outs = map (assemble evs (drop_set c evs) n (full_rank c)) parts /\
              (na_action c = NaRaise -> all_nulls evs = []).
Proof. exact build_parts_inv. Qed.

(* THE statement of the property: every part equals a separate build of that part alone on the jointly kept rows
   (the rows the whole formula drops are passed in as the caller's drop set; nothing else of the other parts matters).
   `consistent`: the kind of a factor is a function of its expression text, as the parser guarantees. *)
Theorem C07_part_equals_separate_build : forall d n c (parts : list (list term)) outs k part o,
  consistent (concat (concat parts)) ->
  build_parts d n c parts = inl outs -> nth_error parts k = Some part -> nth_error outs k = Some o ->
  build d n {| full_rank := full_rank c; na_action := NaIgnore; caller_drop := o_drop o |} part = inl o.
Proof. exact part_equals_separate_build. Qed.
(* which rests on: assembling reads the evaluated pool only at the expressions of the part's own factors *)
Theorem C07_assemble_reads_only_own_factors : forall evs evs' drop n fr terms,
  agree evs evs' (concat terms) -> assemble evs drop n fr terms = assemble evs' drop n fr terms.
Proof. exact assemble_ext. Qed.

Example C07_example :
  let d := [([97]%N, CNum [Some (Q2Qc 1); None; Some (Q2Qc 3)]); ([98]%N, CNum [Some (Q2Qc 5); Some (Q2Qc 6); None])] in
  match build_parts d 3 {| full_rank := true; na_action := NaDrop; caller_drop := [] |}
                    [[[{| fx := [97]%N; fk := FLookup |}]]; [[{| fx := [98]%N; fk := FLookup |}]]] with
  | inl [o1; o2] => o_drop o1 = [1; 2] /\ o_drop o2 = [1; 2] /\ o_cols o1 = [[Some (Q2Qc 1)]] /\ o_cols o2 = [[Some (Q2Qc 5)]]
  | _ => False end.
Proof. vm_compute. auto. Qed.

Print Assumptions C07_shape_preserved.
Print Assumptions C07_parts_row_aligned.
Print Assumptions C07_joint_drop_set.
Print Assumptions C07_parts_from_shared_pool.
Print Assumptions C07_part_equals_separate_build.
Print Assumptions C07_assemble_reads_only_own_factors.
Print Assumptions C07_example.
