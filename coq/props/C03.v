(* ===== C03 : rank reduction -- combinatorial core ===== *)
From Coq Require Import List NArith ZArith QArith Qcanon Bool Arith Permutation.
Import ListNotations.
Require Import Scope ScopeP1 ScopeP2 ScopeP3 Mat MatScope MatSep MatLoop DummySpan DummyInter ScopeWidth.

(* Component semantics: a scoped term with numeric factors N, reduced factors R and full categorical factors F denotes the
   interval { S | N u R <= S <= N u R u F } of the subset lattice ([covers]); columns are independent iff the emitted
   intervals are disjoint, and the span is unchanged iff their union is unchanged ([count] = multiplicity of a component). *)

(* `_simplify_scoped_terms` preserves the multiset of components of ANY family of well-formed scoped terms with pairwise
   distinct components, within the stated fuel (so the fuelled model never runs out). *)
Theorem C03_simplify_preserves_components : forall isnum ts,
  ScopeP1.wf_all isnum ts -> (forall c, (count isnum c ts <= 1)%nat) ->
  forall c, count isnum c (Scope.simplify (S (Scope.nred ts)) ts) = count isnum c ts.
Proof. exact simplify_preserves_components. Qed.
(* ... and the result is again well-formed and has no more reduced factors than the input *)
Theorem C03_simplify_wellformed : forall isnum fuel, good isnum fuel (Scope.simplify fuel).
Proof. exact simplify_ok. Qed.
(* the materializer's simplification is that algorithm on the factor sets *)
Theorem C03_materializer_uses_it : forall fuel ts, map st_f (Mat.simplify fuel ts) = Scope.simplify fuel (map st_f ts).
Proof. exact simplify_factor_sets. Qed.
Theorem C03_span_components_preserved : forall isnum span,
  ScopeP1.wf_all isnum (map st_f span) -> (forall c, (count isnum c (map st_f span) <= 1)%nat) ->
  forall c, count isnum c (map st_f (Mat.simplify (S (Mat.nred span)) span)) = count isnum c (map st_f span).
Proof. exact simplify_span_components. Qed.
(* the terms a formula term spans (categorical factors reduced, numerical not) each cover exactly one component, and two of
   them that share a component are the same scoped term -- hence subtracting the already-spanned terms keeps components disjoint *)
Theorem C03_spanned_terms_disjoint : forall isnum t t' c, canon isnum t -> canon isnum t' ->
  covers isnum t c = true -> covers isnum t' c = true -> Scope.st_eqb t t' = true.
Proof. exact canon_same_component. Qed.

(* ---- the LOOP over all terms of a formula (`_get_scoped_terms` with its `spanned` set), for ANY evaluated factor pool and ANY
   list of terms with distinct factors: (A) the components of the scoped terms that are emitted are, with multiplicity, exactly
   the components of the accumulated span; (B) no component is emitted twice (columns stay independent); (C) the accumulated
   span contains the full span of every term that is not skipped (nothing of the unreduced column space is lost). *)
Theorem C03_loop_emits_each_component_once : forall evs terms, Forall term_ok terms ->
  let r := fold_left (scope_step true evs) terms ([], []) in
  (forall c, sum_cnt evs c (fst r) = count (isnum_of evs) c (map st_f (snd r))) /\
  (forall c, (count (isnum_of evs) c (map st_f (snd r)) <= 1)%nat).
Proof. exact loop_components. Qed.
Theorem C03_loop_covers_every_term_span : forall evs terms t s, In t terms -> evf_of evs t <> [] -> has_zero (evf_of evs t) = false ->
  In s (spanned_by (evf_of evs t)) -> Mat.mem_st s (snd (fold_left (scope_step true evs) terms ([], []))) = true.
Proof. exact loop_cover. Qed.
(* the scoped terms the materializer uses are the first component of that fold *)
Theorem C03_get_scoped_terms_is_the_loop : forall fr evs terms, get_scoped_terms fr evs terms = fst (fold_left (scope_step fr evs) terms ([], [])).
Proof. reflexivity. Qed.

(* non-vacuity: over two categoricals,  {A-, A-:B-}  becomes  {A-:B}  (B full inside A reduced), and an intercept plus A-
   becomes A with all its levels *)
Example C03_example :
  let A := [65]%N in let B := [66]%N in
  Scope.simplify 4 [[(A, true)]; [(A, true); (B, true)]] = [[(A, true); (B, false)]] /\
  Scope.simplify 4 [[(B, true)]; [(A, true); (B, true)]; [(A, true)]] = [[(A, true)]; [(A, false); (B, true)]] /\
  Scope.simplify 4 [[]; [(A, true)]] = [[(A, false)]].
Proof. vm_compute. auto. Qed.

(* the single-factor case of "rank reduction leaves the column space unchanged": the dummies of ALL levels add up to the intercept row by row,
   so the dropped reference dummy is the intercept minus the remaining dummies ([1 | reduced] and [full] are expressible in one another) *)
Theorem C03_full_dummies_sum_to_intercept : forall v lvs i s, NoDup lvs -> nth_error v i = Some (Some s) -> In s lvs ->
  exists cells, Forall2 (fun lv c => nth_error (indicator v lv) i = Some (Some c)) lvs cells /\ qsum cells = q1.
Proof. exact full_dummies_sum_to_one. Qed.
Theorem C03_reference_dummy_is_intercept_minus_others : forall ref others s, NoDup (ref :: others) -> In s (ref :: others) ->
  ind_cell (Some s) ref = (q1 - qsum (map (ind_cell (Some s)) others))%Qc.
Proof. exact reference_dummy_is_rest. Qed.

(* the dimension-count half of "same column space": a scoped term with numeric factors (1 column each), reduced categorical factors
   (n-1 columns) and full categorical factors (n columns) has exactly as many columns as the components it covers have dimensions,
   where a component {i...} has dimension prod (n_i - 1) (1 for a numeric i).  comps enumerates exactly the covered components.
   Together with C03_loop_emits_each_component_once (every component of the formula is covered by exactly one emitted term) this gives:
   the emitted matrix has exactly  sum over the formula's components of their dimensions  columns -- the rank of the over-specified matrix
   when every level combination is observed. *)
Theorem C03_term_width_is_component_dimension : forall isnum nlev t, (forall f, In f t -> 1 <= nlev (fid f))%nat ->
  twidth isnum nlev t = total (map (cwidth isnum nlev) (comps isnum t)).
Proof. exact twidth_is_component_sum. Qed.
Theorem C03_enumerated_components_are_covered : forall isnum t c, In c (comps isnum t) -> covers isnum t c = true.
Proof. exact comps_are_covered. Qed.
Theorem C03_covered_components_are_enumerated : forall isnum t c, covers isnum t c = true ->
  exists c', In c' (comps isnum t) /\ (forall i, In i c <-> In i c').
Proof. exact covered_is_comp. Qed.
(* non-vacuity: a:B-:C with 3 and 4 levels has 1*2*4 = 8 columns = |{a,B}| + |{a,B,C}| = 2 + 6 *)
Example C03_width_example : let a := [97]%N in let B := [66]%N in let C := [67]%N in
  let isnum := (fun i => ideqb i a) in let nlev := (fun i => if ideqb i B then 3 else 4) in
  twidth isnum nlev [(a, false); (B, true); (C, false)] = 8 /\
  map (cwidth isnum nlev) (comps isnum [(a, false); (B, true); (C, false)]) = [2; 6].
Proof. vm_compute. auto. Qed.

(* the same inside an interaction, for ANY cofactor cell y (the product of the row's cells of the term's other factors): the
   reference-level column of A times the cofactor is the cofactor column minus the other levels of A times the cofactor, and the cofactor
   is the sum over all levels.  This is the inductive step of "rank reduction leaves the column space unchanged": A(full):rest and
   {rest, A(reduced):rest} are expressible in one another whatever `rest` is; applying it factor by factor turns a term of full codings into
   the components it covers (counted by C03_term_width_is_component_dimension). *)
Theorem C03_reference_dummy_inside_interaction : forall ref others s (y : Qc), NoDup (ref :: others) -> In s (ref :: others) ->
  (ind_cell (Some s) ref * y = y - qsum (map (fun lv => ind_cell (Some s) lv * y) others))%Qc.
Proof. exact reference_dummy_in_interaction. Qed.
Theorem C03_full_dummies_inside_interaction_span_cofactor : forall lvs s (y : Qc), NoDup lvs -> In s lvs ->
  (qsum (map (fun lv => ind_cell (Some s) lv * y) lvs) = y)%Qc.
Proof. exact full_dummies_in_interaction. Qed.

Print Assumptions C03_reference_dummy_inside_interaction.
Print Assumptions C03_full_dummies_inside_interaction_span_cofactor.
Print Assumptions C03_term_width_is_component_dimension.
Print Assumptions C03_enumerated_components_are_covered.
Print Assumptions C03_covered_components_are_enumerated.
Print Assumptions C03_width_example.
Print Assumptions C03_full_dummies_sum_to_intercept.
Print Assumptions C03_reference_dummy_is_intercept_minus_others.
Print Assumptions C03_simplify_preserves_components.
Print Assumptions C03_simplify_wellformed.
Print Assumptions C03_materializer_uses_it.
Print Assumptions C03_span_components_preserved.
Print Assumptions C03_spanned_terms_disjoint.
Print Assumptions C03_loop_emits_each_component_once.
Print Assumptions C03_loop_covers_every_term_span.
Print Assumptions C03_get_scoped_terms_is_the_loop.
Print Assumptions C03_example.
