(* ===== C19 : Structured, layered-mapping and formula containers obey their container laws =====
   Only statements closed by [exact]; proofs live in proofs/StructLaws.v, LayeredLaws.v, FormulaSeqLaws.v. *)
From Coq Require Import List Arith Bool NArith ZArith Permutation.
Import ListNotations.
Require Import Struct Layered FormulaSeq StructLaws LayeredLaws FormulaSeqLaws.

(* --- Structured --- *)
Theorem C19_map_preserves_shape : forall (A B : Type) (f : A -> B) (n : node A), shape_of (smap f n) = shape_of n.
Proof. exact @smap_shape. Qed.
Theorem C19_map_visits_leaves_in_flatten_order : forall (A B : Type) (f : A -> B) (n : node A), sflatten (smap f n) = map f (sflatten n).
Proof. exact @sflatten_smap. Qed.
Theorem C19_flatten_is_leaf_sequence : forall (A : Type) (n : node A), sflatten n = leaves n.
Proof. exact @sflatten_leaves. Qed.
Theorem C19_simplify_idempotent : forall (A : Type) (n : node A), simplify (simplify n) = simplify n.
Proof. exact @simplify_idempotent. Qed.
Theorem C19_simplify_leaf_preserving : forall (A : Type) (n : node A), leaves (simplify n) = leaves n.
Proof. exact @simplify_leaves. Qed.
Theorem C19_simplify_removes_wrappers : forall (A : Type) (n : node A), wrapper (simplify n) = false.
Proof. exact @simplify_no_wrapper. Qed.
Theorem C19_update_is_dict_merge : forall (A : Type) (fields upd : list (key * node A)) (k : key),
  uniq (dkeys fields) = true ->
  dget k (fields_of (supdate (Str fields) upd)) = match dget k (rev upd) with Some v => Some v | None => dget k fields end.
Proof. exact @supdate_is_merge. Qed.

(* --- LayeredMapping --- *)
Theorem C19_lookup_is_top_first_merge : forall (V : Type) (k : key) (l : lay V), lget k l = dget k (lflat l).
Proof. exact @lget_top_first. Qed.
Theorem C19_writes_confined_to_private_layer : forall (V : Type) (ops : list (lop V)) (l : lay V),
  layers_of (fold_left lstep ops l) = layers_of l.
Proof. exact @history_layers. Qed.
Theorem C19_iteration_distinct : forall (V : Type) n (m : list (key * V)) ls, NoDup (liter (Sub n m ls)).
Proof. exact @liter_distinct. Qed.
Theorem C19_iteration_iff_lookup : forall (V : Type) (l : lay V) (k : key), In k (liter l) <-> lget k l <> None.
Proof. exact @liter_mem. Qed.
Theorem C19_length_is_iteration_length : forall (V : Type) n (m : list (key * V)) ls, llen (Sub n m ls) = length (liter (Sub n m ls)).
Proof. exact @llen_iter. Qed.
Theorem C19_delete_private_only : forall (V : Type) k n (m : list (key * V)) ls, (ldel k (Sub n m ls) = None) <-> dget k m = None.
Proof. exact @ldel_private_only. Qed.
Theorem C19_named_lookup_agrees : forall (V : Type) k (l : lay V) path, option_map fst (lget_named k path l) = lget k l.
Proof. exact @lget_named_value. Qed.

(* --- SimpleFormula as a mutable sequence --- *)
Theorem C19_ordering_invariant : forall o l ops, plain_ordering o = true -> ordered (frun (mk_formula o l) ops) = true.
Proof. exact ordering_invariant. Qed.
Theorem C19_degree_sort_stable : forall d l, of_deg d (sort_deg l) = of_deg d l.
Proof. exact sort_deg_stable. Qed.
Theorem C19_sequence_holds_the_list_ops_terms : forall f op, plain_ordering (ford f) = true ->
  Permutation (fterms (fstep' f op)) (plain_step (fterms f) op).
Proof. exact fstep_terms_perm. Qed.

(* non-vacuity: a concrete nested structure, a concrete stack of layers, a concrete history *)
Example C19_example_struct :
  let n := Str [([98]%N, Tup [Leaf 1%N; Tup [Leaf 2%N; Str [(kroot, Leaf 3%N)]]]); (kroot, Str [(kroot, Leaf 4%N)])] in
  sflatten n = [1; 2; 3; 4]%N /\ simplify n = Str [([98]%N, Tup [Leaf 1%N; Tup [Leaf 2%N; Leaf 3%N]]); (kroot, Leaf 4%N)] /\ wf n = true.
Proof. vm_compute. auto. Qed.
Example C19_example_formula :
  let a := [{| fexpr := [97]%N; flit := false |}] in
  let ab := [{| fexpr := [97]%N; flit := false |}; {| fexpr := [98]%N; flit := false |}] in
  let one := [{| fexpr := [49]%N; flit := true |}] in
  map degree (fterms (frun (mk_formula ODegree [ab; a]) [FInsert 0%Z ab; FInsert 5%Z one; FDel (-1)%Z; FSet 0%Z ab])) = [1; 2; 2]%nat.
Proof. vm_compute. reflexivity. Qed.

Print Assumptions C19_map_preserves_shape.
Print Assumptions C19_map_visits_leaves_in_flatten_order.
Print Assumptions C19_flatten_is_leaf_sequence.
Print Assumptions C19_simplify_idempotent.
Print Assumptions C19_simplify_leaf_preserving.
Print Assumptions C19_simplify_removes_wrappers.
Print Assumptions C19_update_is_dict_merge.
Print Assumptions C19_lookup_is_top_first_merge.
Print Assumptions C19_writes_confined_to_private_layer.
Print Assumptions C19_iteration_distinct.
Print Assumptions C19_iteration_iff_lookup.
Print Assumptions C19_length_is_iteration_length.
Print Assumptions C19_delete_private_only.
Print Assumptions C19_named_lookup_agrees.
Print Assumptions C19_ordering_invariant.
Print Assumptions C19_degree_sort_stable.
Print Assumptions C19_sequence_holds_the_list_ops_terms.
Print Assumptions C19_example_struct.
Print Assumptions C19_example_formula.
