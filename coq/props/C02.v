(* ===== C02 : every model-matrix column holds exactly the product its name denotes ===== *)
From Coq Require Import List NArith ZArith QArith Qcanon Bool Arith.
Import ListNotations.
Require Import Mat MatLaws KronSolo MatConcat.
Open Scope N_scope.

(* The columns of a term are exactly: one column per choice of one encoded column from each factor; its name is the names
   joined by ':', its value the pointwise product (any number of factors, any widths). *)
Theorem C02_columns_are_products : forall fs n v, fs <> [] ->
  (In (n, v) (kron fs) <-> exists sel, Forall2 (fun x f => In x f) sel fs /\ n = name_of sel /\ v = val_of sel).
Proof. exact columns_are_products. Qed.
Theorem C02_kronecker_enumeration : forall fs, kron fs = map (fun sel => (name_of sel, val_of sel)) (sels fs).
Proof. exact kron_is_products. Qed.
Theorem C02_kronecker_width : forall fs, fs <> [] -> length (kron fs) = fold_right (fun f n => (length f * n)%nat) 1%nat fs.
Proof. exact kron_length. Qed.
(* the first factor varies fastest *)
Theorem C02_first_factor_fastest : forall f g,
  map fst (kron [f; g]) = flat_map (fun gc => map (fun fc => fst fc ++ [58] ++ fst gc) f) g.
Proof. exact kron_order_two. Qed.
(* products and scalings are cell-wise *)
Theorem C02_product_cellwise : forall a b i x y,
  nth_error a i = Some x -> nth_error b i = Some y -> nth_error (vmul a b) i = Some (cmul x y).
Proof. exact vmul_cells. Qed.
Theorem C02_scale_cellwise : forall s a i,
  nth_error (vscale s a) i = option_map (fun x => match x with Some v => Some (s * v)%Qc | None => None end) (nth_error a i).
Proof. exact vscale_cells. Qed.
(* the intercept is a column of ones *)
Theorem C02_intercept_is_ones : forall n i, (i < n)%nat -> nth_error (ones n) i = Some (Some (Q2Qc 1)).
Proof. exact ones_cells. Qed.
(* categorical factors: one indicator per level in level order; reduced rank drops the reference level *)
Theorem C02_full_encoding : forall e c dl drop,
  encode e (EvCat c dl) false drop = map (fun lv => (name_full e lv, indicator (keep_rows c drop 0) lv)) (levels_used c dl drop).
Proof. exact encode_cat_full. Qed.
Theorem C02_reduced_encoding : forall e c dl drop,
  encode e (EvCat c dl) true drop = map (fun lv => (name_red e lv, indicator (keep_rows c drop 0) lv)) (tl (levels_used c dl drop)).
Proof. exact encode_cat_reduced. Qed.
Theorem C02_indicator_cells : forall v lv i s, nth_error v i = Some (Some s) ->
  nth_error (indicator v lv) i = Some (Some (if leqb s lv then Q2Qc 1 else Q2Qc 0)).
Proof. exact indicator_cells. Qed.

(* non-vacuity: a two-way interaction of a 2-level factor with a numeric column *)
Example C02_example :
  let A := [([65;91;120;93], [Some (Q2Qc 1); Some (Q2Qc 0)]); ([65;91;121;93], [Some (Q2Qc 0); Some (Q2Qc 1)])] in
  let a := [([97], [Some (Q2Qc 2); Some (Q2Qc 3)])] in
  kron [A; a] = [([65;91;120;93;58;97], [Some (Q2Qc 2); Some (Q2Qc 0)]); ([65;91;121;93;58;97], [Some (Q2Qc 0); Some (Q2Qc 3)])].
Proof. vm_compute. reflexivity. Qed.

(* the single-column fast path of _get_columns_for_term: a factor with ONE column, wherever it stands in the term, multiplies every column of the
   product of the other factors and leaves their order alone -- so pre-multiplying all such factors and expanding them last gives the columns
   of the naive row-wise Kronecker product (cell multiplication being commutative and associative) *)
Theorem C02_single_column_factor_pulls_out : forall s pre post, pre ++ post <> [] ->
  map snd (kron (pre ++ [s] :: post)) = map (fun c => vmul c (snd s)) (map snd (kron (pre ++ post))).
Proof. exact kron_pull_solo. Qed.
Theorem C02_cell_product_commutes : forall a b, vmul a b = vmul b a.
Proof. exact vmul_comm. Qed.
Theorem C02_cell_product_associates : forall a b c, vmul (vmul a b) c = vmul a (vmul b c).
Proof. exact vmul_assoc. Qed.

Print Assumptions C02_single_column_factor_pulls_out.
Print Assumptions C02_cell_product_commutes.
Print Assumptions C02_cell_product_associates.
(* "term by term in formula order": when the labels produced are pairwise distinct, names and columns of the matrix are the plain
   concatenation, over the terms in formula order and each term's scoped terms in recorded order, of the columns of C02_columns_are_products --
   the dictionary the implementation collects them in neither reorders nor merges anything.  (Equal labels are the one case where the
   dictionary matters: the later column replaces the value at the first position; the `build` stream includes such collisions.) *)
Theorem C02_matrix_is_concatenation_in_formula_order : forall evs drop nrows fr terms,
  NoDup (map fst (all_cols evs drop nrows fr terms)) ->
  o_names (assemble evs drop nrows fr terms) = map fst (all_cols evs drop nrows fr terms) /\
  o_cols (assemble evs drop nrows fr terms) = map snd (all_cols evs drop nrows fr terms).
Proof. exact assemble_is_concatenation. Qed.

Print Assumptions C02_matrix_is_concatenation_in_formula_order.
Print Assumptions C02_columns_are_products.
Print Assumptions C02_kronecker_enumeration.
Print Assumptions C02_kronecker_width.
Print Assumptions C02_first_factor_fastest.
Print Assumptions C02_product_cellwise.
Print Assumptions C02_scale_cellwise.
Print Assumptions C02_intercept_is_ones.
Print Assumptions C02_full_encoding.
Print Assumptions C02_reduced_encoding.
Print Assumptions C02_indicator_cells.
Print Assumptions C02_example.
