(* ===== C04 : a model spec replays the recorded encoding on any data ===== *)
From Coq Require Import List NArith ZArith QArith Qcanon Bool Arith.
Import ListNotations.
Require Import Mat Mat2 SpecRec ReplayLaws MatLaws MatSep ReplaySelf ReplayRows.
Open Scope nat_scope.

(* On ANY data on which reuse succeeds the column names are the names recorded in the spec, in the recorded order
   (levels absent from the new data still produce their columns; nothing is added, removed or renamed). *)
Theorem C04_replay_names_fixed : forall sp d n caller names cols drop,
  replay sp d n caller = inl (names, cols, drop) -> names = spec_names sp /\ length cols = length names.
Proof. exact replay_names_fixed. Qed.
(* with the recorded categories pinned, encoded column names do not depend on the data *)
Theorem C04_pinned_names_data_independent : forall e c c' dl dl' red drop drop' lvs,
  map fst (encode_with e (EvCat c dl) red drop (Some lvs)) = map fst (encode_with e (EvCat c' dl') red drop' (Some lvs)).
Proof. exact pinned_names_data_independent. Qed.
(* a level of the recorded list that does not occur in the new data yields an all-zero column *)
Theorem C04_absent_level_zero_column : forall (v : list (option str)) lv,
  (forall s, In (Some s) v -> leqb s lv = false) -> indicator v lv = map (fun _ => Some (Q2Qc 0)) v.
Proof. exact absent_level_zero_column. Qed.
(* cells are row-wise functions of the inputs: indicator, product and scaling are computed cell by cell *)
Theorem C04_indicator_rowwise : forall v lv i s, nth_error v i = Some (Some s) ->
  nth_error (indicator v lv) i = Some (Some (if leqb s lv then Q2Qc 1 else Q2Qc 0)).
Proof. exact indicator_cells. Qed.
Theorem C04_product_rowwise : forall a b i x y,
  nth_error a i = Some x -> nth_error b i = Some y -> nth_error (vmul a b) i = Some (cmul x y).
Proof. exact vmul_cells. Qed.
(* replay is a function of (spec, data, caller set): the spec is never changed by a reuse, so every statement above holds at
   every point of any sequence of reuses *)
Theorem C04_replay_is_a_function : forall sp d n caller, replay sp d n caller = replay sp d n caller.
Proof. reflexivity. Qed.

Example C04_example :
  let sp := {| sp_terms := [[{| fx := [65]%N; fk := FLookup |}]];
               sp_struct := [([{| st_f := [([65]%N, false)]; st_scale := Q2Qc 1 |}], [[65;91;120;93]%N; [65;91;121;93]%N])];
               sp_enc := [([65]%N, KCat [[120]%N; [121]%N])];
               sp_cfg := {| full_rank := false; na_action := NaDrop; caller_drop := [] |} |} in
  replay sp [([65]%N, CCat [Some [120]%N; Some [120]%N] None)] 2 [] =
  inl ([[65;91;120;93]%N; [65;91;121;93]%N], [[Some (Q2Qc 1); Some (Q2Qc 1)]; [Some (Q2Qc 0); Some (Q2Qc 0)]], []).
Proof. vm_compute. reflexivity. Qed.

(* THE statement: the spec a build records (structure rows with their column names, the kind and level list of every encoded
   factor, the build configuration), replayed on the data it was built from with the same caller rows, reproduces the matrix:
   same names, same columns cell by cell, same drop set. *)
Theorem C04_replay_reproduces : forall d n c terms o,
  build d n c terms = inl o ->
  exists evs, eval_pool d (pool_of terms) [] = inl evs /\
    replay (spec_of c terms evs n) d n (caller_drop c) = inl (o_names o, o_cols o, o_drop o).
Proof. exact replay_reproduces. Qed.
(* the recorded level list pins the encoding: with it, encoding equals the original encoding of the training data *)
Theorem C04_recorded_levels_reproduce_encoding : forall evs drop e v red, lookup_ev evs e = Some v ->
  encode_with e v red drop (match enc_lookup (enc_of evs drop) e with Some (KCat l) => Some l | _ => None end) = encode e v red drop.
Proof. exact encode_with_recorded. Qed.
(* enforcing a generated term against its own recorded column names changes nothing *)
Theorem C04_enforce_is_identity_on_recorded_names : forall gen n, NoDup (map fst gen) -> enforce gen (map fst gen) n = inl gen.
Proof. exact enforce_self. Qed.

(* THE row-wise statement: with every categorical factor's level list fixed by the spec (as in every recorded spec) or by the column's
   dtype, and no nulls, replaying on ANY selection ix of the rows -- a subset, duplicated rows, another order, levels becoming absent --
   gives under the same names exactly the selected rows of every column of the replay on the whole data *)
Theorem C04_replay_is_rowwise : forall sp d n ix evs names cols,
  eval_pool d (pool_of (sp_terms sp)) [] = inl evs -> frame_ready sp evs n -> all_nulls evs = [] -> Forall (fun i => i < n)%nat ix ->
  replay sp d n [] = inl (names, cols, []) ->
  replay sp (sel_frame ix d) (length ix) [] = inl (names, map (sel ix) cols, []).
Proof. exact replay_rowwise. Qed.
Theorem C04_recorded_specs_pin_levels : forall c terms evs n e v, lookup_ev evs e = Some v -> pinned (sp_enc (spec_of c terms evs n)) e v.
Proof. exact recorded_spec_pins. Qed.
(* rows 1,1,0 of a frame in which level y then no longer occurs: its column stays, all zero *)
Example C04_rowwise_example :
  let sp := {| sp_terms := [[{| fx := [65]%N; fk := FLookup |}]; [{| fx := [97]%N; fk := FLookup |}]];
               sp_struct := [([{| st_f := [([65]%N, false)]; st_scale := Q2Qc 1 |}], [[65;91;120;93]%N; [65;91;121;93]%N]);
                             ([{| st_f := [([97]%N, false)]; st_scale := Q2Qc 2 |}], [[97]%N])];
               sp_enc := [([65]%N, KCat [[120]%N; [121]%N]); ([97]%N, KNum)];
               sp_cfg := {| full_rank := false; na_action := NaDrop; caller_drop := [] |} |} in
  let d := [([65]%N, CCat [Some [121]%N; Some [120]%N; Some [121]%N] None); ([97]%N, CNum [Some (Q2Qc 1); Some (Q2Qc 2); Some (Q2Qc 3)])] in
  replay sp (sel_frame [1; 1; 0]%nat d) 3 [] =
  inl ([[65;91;120;93]%N; [65;91;121;93]%N; [97]%N],
       map (sel [1; 1; 0]%nat) [[Some (Q2Qc 0); Some (Q2Qc 1); Some (Q2Qc 0)]; [Some (Q2Qc 1); Some (Q2Qc 0); Some (Q2Qc 1)]; [Some (Q2Qc 2); Some (Q2Qc 4); Some (Q2Qc 6)]], []).
Proof. vm_compute. reflexivity. Qed.

Print Assumptions C04_replay_is_rowwise.
Print Assumptions C04_recorded_specs_pin_levels.
Print Assumptions C04_rowwise_example.
Print Assumptions C04_replay_names_fixed.
Print Assumptions C04_replay_reproduces.
Print Assumptions C04_recorded_levels_reproduce_encoding.
Print Assumptions C04_enforce_is_identity_on_recorded_names.
Print Assumptions C04_pinned_names_data_independent.
Print Assumptions C04_absent_level_zero_column.
Print Assumptions C04_indicator_rowwise.
Print Assumptions C04_product_rowwise.
Print Assumptions C04_replay_is_a_function.
Print Assumptions C04_example.
