(* ===== C20 : formula differentiation is the term-wise partial derivative ===== *)
From Coq Require Import List Arith Bool QArith Qcanon NArith Permutation.
Import ListNotations.
Require Import Struct Calc CalcLaws CalcOrder.
Open Scope Qc_scope.

(* same number and order of terms; each term is differentiated on its own *)
Theorem C20_same_terms_same_order : forall ts wrt, length (diff_formula ts wrt) = length ts.
Proof. exact diff_formula_length. Qed.
Theorem C20_termwise : forall ts wrt i t, nth_error ts i = Some t -> nth_error (diff_formula ts wrt) i = Some (diff t wrt).
Proof. exact diff_formula_nth. Qed.
(* zero if the variable does not occur; the term with that factor removed if it does; one if nothing remains *)
Theorem C20_absent_is_zero : forall v fs r, mem v fs = false -> diff fs (v :: r) = DZero.
Proof. exact diff_absent. Qed.
Theorem C20_present_removes_factor : forall v fs r, mem v fs = true -> diff fs (v :: r) = diff (remove v fs) r.
Proof. exact diff_present. Qed.
Theorem C20_nothing_remains_is_one : forall v, diff [v] [v] = DTerm [].
Proof. exact diff_nothing_remains. Qed.
(* several variables: applied successively *)
Theorem C20_successive : forall fs v r, diff fs (v :: r) = match diff fs [v] with DZero => DZero | DTerm fs' => diff fs' r end.
Proof. exact diff_successive. Qed.
Theorem C20_second_derivative_zero : forall v fs, diff fs [v; v] = DZero.
Proof. exact diff_twice. Qed.
(* for terms multilinear in numeric columns, the derivative term evaluates to the EXACT finite difference of the original
   term, in every environment (row) and for every step h <> 0 *)
Theorem C20_exact_finite_difference : forall rho v h fs, NoDup fs -> h <> Q2Qc 0 ->
  sem rho (diff fs [v]) = (prod (upd rho v (rho v + h)) fs - prod rho fs) / h.
Proof. exact diff_is_finite_difference. Qed.

Example C20_example :
  diff_formula [[]; [[97]%N]; [[98]%N]; [[97]%N; [98]%N]] [[97]%N] = [DZero; DTerm []; DZero; DTerm [[98]%N]].
Proof. vm_compute. reflexivity. Qed.

(* "applied successively for several variables", in closed form: the result is non-zero exactly when the variables are pairwise distinct
   factors of the term, it is then the term without them (in the term's own order), and the order in which the variables are given
   does not matter (mixed partial derivatives commute), for single terms and whole formulas *)
Theorem C20_nonzero_iff_distinct_factors : forall fs wrt,
  (exists fs', diff fs wrt = DTerm fs') <-> NoDup wrt /\ forall v, In v wrt -> mem v fs = true.
Proof. exact diff_nonzero_iff. Qed.
Theorem C20_result_is_term_without_variables : forall fs wrt fs', diff fs wrt = DTerm fs' -> fs' = filter (fun x => negb (mem x wrt)) fs.
Proof. exact diff_value. Qed.
Theorem C20_variable_order_irrelevant : forall wrt wrt', Permutation wrt wrt' -> forall fs, diff fs wrt = diff fs wrt'.
Proof. exact diff_perm. Qed.
Theorem C20_variable_order_irrelevant_formula : forall ts wrt wrt', Permutation wrt wrt' -> diff_formula ts wrt = diff_formula ts wrt'.
Proof. exact diff_formula_perm. Qed.
Example C20_mixed_example :
  diff [[97]; [98]; [99]]%N [[99]; [97]]%N = DTerm [[98]%N] /\ diff [[97]; [98]; [99]]%N [[97]; [99]]%N = DTerm [[98]%N] /\
  diff [[97]; [98]]%N [[97]; [100]]%N = DZero.
Proof. vm_compute. auto. Qed.

Print Assumptions C20_nonzero_iff_distinct_factors.
Print Assumptions C20_result_is_term_without_variables.
Print Assumptions C20_variable_order_irrelevant.
Print Assumptions C20_variable_order_irrelevant_formula.
Print Assumptions C20_mixed_example.
Print Assumptions C20_same_terms_same_order.
Print Assumptions C20_termwise.
Print Assumptions C20_absent_is_zero.
Print Assumptions C20_present_removes_factor.
Print Assumptions C20_nothing_remains_is_one.
Print Assumptions C20_successive.
Print Assumptions C20_second_derivative_zero.
Print Assumptions C20_exact_finite_difference.
Print Assumptions C20_example.
