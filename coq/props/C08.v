(* ===== C08 : text and categorical columns are dummy-coded; the matrix is numeric ===== *)
From Coq Require Import List NArith ZArith QArith Qcanon Bool Arith.
Import ListNotations.
Require Import GenDtypes DtypeLaws Mat MatLaws.
Open Scope nat_scope.

(* Over the dtype table regenerated from /repo on every run (object, str, string[python], string[pyarrow], category,
   int*, uint*, float*, bool, nullable extension types): text and categorical dtypes are categorical factors, numeric
   dtypes are numerical factors, for BOTH materializers (finite domain: decided by computation, then lifted). *)
Theorem C08_text_and_category_are_categorical : forall r, In r dtype_table -> dclass r < 2 -> pandas_cat r = true /\ narwhals_cat r = true.
Proof. exact text_and_category_are_categorical. Qed.
Theorem C08_numeric_is_numerical : forall r, In r dtype_table -> dclass r = 2 -> pandas_cat r = false /\ narwhals_cat r = false.
Proof. exact numeric_is_numerical. Qed.
Theorem C08_materializers_agree_on_kinds : forallb (fun r => Bool.eqb (pandas_cat r) (narwhals_cat r)) dtype_table = true.
Proof. exact materializers_agree_on_kinds. Qed.
Theorem C08_table_covers_classes : forallb (fun c => existsb (fun r => dclass r =? c) dtype_table) [0; 1; 2] = true /\ (15 <=? length dtype_table) = true.
Proof. exact table_covers_classes. Qed.
(* a categorical factor is encoded by indicator columns: sorted distinct values for text, the declared order for a
   categorical dtype (including declared but unobserved levels); a numerical factor passes through unchanged *)
Theorem C08_categorical_levels : forall e c dl drop,
  encode e (EvCat c dl) false drop = map (fun lv => (name_full e lv, indicator (keep_rows c drop 0) lv)) (levels_used c dl drop).
Proof. exact encode_cat_full. Qed.
Theorem C08_numeric_passes_through : forall e c r drop, encode e (EvNum c) r drop = [(e, keep_rows c drop 0)].
Proof. exact encode_num. Qed.
(* every cell of an indicator column is the number 0 or 1 *)
Theorem C08_indicator_cells_numeric : forall v lv i s, nth_error v i = Some (Some s) ->
  nth_error (indicator v lv) i = Some (Some (if leqb s lv then Q2Qc 1 else Q2Qc 0)).
Proof. exact indicator_cells. Qed.

Print Assumptions C08_text_and_category_are_categorical.
Print Assumptions C08_numeric_is_numerical.
Print Assumptions C08_materializers_agree_on_kinds.
Print Assumptions C08_table_covers_classes.
Print Assumptions C08_categorical_levels.
Print Assumptions C08_numeric_passes_through.
Print Assumptions C08_indicator_cells_numeric.
