(* ===== C08 : text and categorical columns are dummy-coded; the matrix is numeric ===== *)
From Coq Require Import List NArith ZArith QArith Qcanon Bool Arith Sorted.
Import ListNotations.
Require Import GenDtypes DtypeLaws Mat MatLaws LevelsSorted.
Open Scope nat_scope.

(* Over the dtype table regenerated from /repo on every run (object, str, string[python], string[pyarrow], category,
   int*, uint*, float*, bool, nullable extension types): text and categorical dtypes are categorical factors, numeric
   dtypes are numerical factors, for BOTH materializers (finite domain: decided by computation, then lifted). *)
Theorem C08_text_and_category_are_categorical : forall r, In r dtype_table -> dclass r < 2 -> pandas_cat r = true /\ narwhals_cat r = true.
Proof. exact text_and_category_are_categorical. Qed.
Theorem C08_numeric_is_numerical : forall r, In r dtype_table -> dclass r = 2 -> pandas_cat r = false /\ narwhals_cat r = false.
Proof. exact numeric_is_numerical. Qed.
Theorem C08_materializers_agree_on_kinds : forallb (fun r => Bool.eqb (pandas_cat r) (narwhals_cat r)) dtype_table = true.
Proof. exact materializers_agree_on_kinds. Qed.
Theorem C08_table_covers_classes : forallb (fun c => existsb (fun r => dclass r =? c) dtype_table) [0; 1; 2] = true /\ (15 <=? length dtype_table) = true.
Proof. exact table_covers_classes. Qed.
(* a categorical factor is encoded by indicator columns: sorted distinct values for text, the declared order for a
   categorical dtype (including declared but unobserved levels); a numerical factor passes through unchanged *)
Theorem C08_categorical_levels : forall e c dl drop,
  encode e (EvCat c dl) false drop = map (fun lv => (name_full e lv, indicator (keep_rows c drop 0) lv)) (levels_used c dl drop).
Proof. exact encode_cat_full. Qed.
Theorem C08_numeric_passes_through : forall e c r drop, encode e (EvNum c) r drop = [(e, keep_rows c drop 0)].
Proof. exact encode_num. Qed.
(* every cell of an indicator column is the number 0 or 1 *)
Theorem C08_indicator_cells_numeric : forall v lv i s, nth_error v i = Some (Some s) ->
  nth_error (indicator v lv) i = Some (Some (if leqb s lv then Q2Qc 1 else Q2Qc 0)).
Proof. exact indicator_cells. Qed.

(* "levels in sorted order for text": the levels discovered in a text column are exactly its non-null values, in strictly increasing
   order (hence without repeats); the order is Python's order of strings -- by code point at the first difference, a proper prefix first.
   For a categorical dtype `levels_used` is the declared list itself (C08_categorical_levels), observed or not. *)
Theorem C08_text_levels_are_the_values : forall v s, In s (levels_of v) <-> In (Some s) v.
Proof. exact levels_of_exact. Qed.
Theorem C08_text_levels_sorted : forall v, StronglySorted slt (levels_of v).
Proof. exact levels_of_sorted. Qed.
Theorem C08_text_levels_distinct : forall v, NoDup (levels_of v).
Proof. exact levels_of_nodup. Qed.
Theorem C08_order_is_codepoint_order : (forall a b, b <> [] -> slt a (a ++ b)) /\ (forall p x y a b, (x < y)%N -> slt (p ++ x :: a) (p ++ y :: b)).
Proof. exact (conj slt_prefix slt_first_difference). Qed.
Theorem C08_declared_levels_kept : forall c dl drop, levels_used c (Some dl) drop = dl.
Proof. exact declared_levels_kept. Qed.
(* non-vacuity: "b", null, "a", "ab", "a"  ->  levels a, ab, b; one indicator column each, all cells numbers *)
Example C08_example :
  let v := [Some [98]; None; Some [97]; Some [97; 98]; Some [97]]%N in
  levels_of v = [[97]; [97; 98]; [98]]%N /\
  map snd (encode [65]%N (EvCat v None) false []) =
    [[Some (Q2Qc 0); Some (Q2Qc 0); Some (Q2Qc 1); Some (Q2Qc 0); Some (Q2Qc 1)];
     [Some (Q2Qc 0); Some (Q2Qc 0); Some (Q2Qc 0); Some (Q2Qc 1); Some (Q2Qc 0)];
     [Some (Q2Qc 1); Some (Q2Qc 0); Some (Q2Qc 0); Some (Q2Qc 0); Some (Q2Qc 0)]].
Proof. vm_compute. auto. Qed.

Print Assumptions C08_text_levels_are_the_values.
Print Assumptions C08_text_levels_sorted.
Print Assumptions C08_text_levels_distinct.
Print Assumptions C08_order_is_codepoint_order.
Print Assumptions C08_declared_levels_kept.
Print Assumptions C08_example.
Print Assumptions C08_text_and_category_are_categorical.
Print Assumptions C08_numeric_is_numerical.
Print Assumptions C08_materializers_agree_on_kinds.
Print Assumptions C08_table_covers_classes.
Print Assumptions C08_categorical_levels.
Print Assumptions C08_numeric_passes_through.
Print Assumptions C08_indicator_cells_numeric.
