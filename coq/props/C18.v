(* ===== C18 : materialization is pure and deterministic across calls, histories and hash seeds ===== *)
From Coq Require Import List Arith Bool NArith ZArith QArith Qcanon Permutation.
Import ListNotations.
Require Import GenPurity History HistoryLaws Mat MatDrop Mat2 SpannedOrder.
Open Scope nat_scope.

(* heap model of specs and their (aliased) state dictionaries: after ANY finite sequence of builds, updates and reuses, every
   previously obtained spec reaches exactly the dictionary contents it reached before -- given that preparing a spec for a
   build copies both dictionaries, which is what /repo's code does (regenerated fact) *)
Theorem C18_history_preserves_earlier_specs : forall ops w s, wf w -> s < length (wspecs w) ->
  observe (wrun true true w ops) s = observe w s.
Proof. exact history_preserves_earlier_specs. Qed.
Theorem C18_repo_copies_state_on_build :
  build_copies_transform_state = true /\ build_copies_encoder_state = true /\ pooled_state_is_fresh = true.
Proof. exact repo_copies_state_on_build. Qed.
Theorem C18_repo_history : forall ops w s, wf w -> s < length (wspecs w) ->
  observe (wrun build_copies_transform_state build_copies_encoder_state w ops) s = observe w s.
Proof. exact repo_history_preserves_earlier_specs. Qed.
(* without the copies the statement is false (the behaviour of the code before the repair) *)
Theorem C18_shared_state_refuted :
  exists ops, observe (wrun false false wempty ops) 0 <> observe (wrun false false wempty (firstn 1 ops)) 0.
Proof. exact shared_state_refuted. Qed.
(* the factor pool is a hash-ordered set: the rows that are dropped do not depend on its iteration order *)
Theorem C18_pool_order_irrelevant : forall c evs evs', Permutation evs evs' -> drop_set c evs = drop_set c evs'.
Proof. exact drop_set_order_independent. Qed.
(* the models of build and reuse are functions, so the same call gives the same result at every point of every history: the two
   statements below are true by construction (reflexivity) and carry no evidence of their own -- that the IMPLEMENTATION behaves like these
   functions at every point of a history is what the `history` correspondence stream, the call-by-call re-execution oracle and the theorems
   above (earlier specs unaffected; no dependence on pool / spanned-set order) establish *)
Theorem C18_build_deterministic : forall d n c terms, build d n c terms = build d n c terms.
Proof. reflexivity. Qed.
Theorem C18_reuse_deterministic : forall sp d n caller, replay sp d n caller = replay sp d n caller.
Proof. reflexivity. Qed.

Example C18_example :
  observe (wrun true true wempty [HNew; HBuild 0 [7]; HBuild 0 [8]; HUpdate 1; HBuild 3 [9]]) 0 = Some ([], [], false) /\
  observe (wrun true true wempty [HNew; HBuild 0 [7]; HBuild 0 [8]; HUpdate 1; HBuild 3 [9]]) 1 = Some ([7], [7], true).
Proof. vm_compute. auto. Qed.

(* hash seeds: the two hash-ordered collections the materializer iterates or consults are the evaluated factor pool and the set of
   already-spanned scoped terms.  The pool is read by factor name only, so names, values, column order, dropped rows and structure are the
   same for EVERY iteration order of it; `spanned` is consulted through membership only, so the scoped terms recorded for every term are
   the same for every order of it, at every point of the loop. *)
Theorem C18_result_independent_of_pool_order : forall evs evs' c n terms, NoDup (map fst evs) -> Permutation evs evs' ->
  assemble evs (drop_set c evs) n (full_rank c) terms = assemble evs' (drop_set c evs') n (full_rank c) terms.
Proof. exact assemble_pool_order. Qed.
Theorem C18_scoped_terms_independent_of_spanned_order : forall fr evs terms done sp sp', Permutation sp sp' ->
  fst (fold_left (scope_step fr evs) terms (done, sp)) = fst (fold_left (scope_step fr evs) terms (done, sp')).
Proof. exact scoped_terms_ignore_spanned_order. Qed.
Theorem C18_spanned_step_order : forall fr evs done sp sp' t, Permutation sp sp' ->
  fst (scope_step fr evs (done, sp) t) = fst (scope_step fr evs (done, sp') t) /\
  Permutation (snd (scope_step fr evs (done, sp) t)) (snd (scope_step fr evs (done, sp') t)).
Proof. exact scope_step_perm. Qed.

Print Assumptions C18_result_independent_of_pool_order.
Print Assumptions C18_scoped_terms_independent_of_spanned_order.
Print Assumptions C18_spanned_step_order.
Print Assumptions C18_history_preserves_earlier_specs.
Print Assumptions C18_repo_copies_state_on_build.
Print Assumptions C18_repo_history.
Print Assumptions C18_shared_state_refuted.
Print Assumptions C18_pool_order_irrelevant.
Print Assumptions C18_build_deterministic.
Print Assumptions C18_reuse_deterministic.
Print Assumptions C18_example.
