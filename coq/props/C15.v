(* ===== C15 : lexing is whitespace-insensitive, quote-faithful; spans ordered ===== *)
From Coq Require Import List NArith ZArith Bool Arith.
Import ListNotations.
Require Import GenTok Tok Classify TokEr TokWs TokLaws TokSpans Parser Parser2 Parser3 GenTie TokVerbatim.
Open Scope N_scope.

(* Inserting a whitespace character at a top-level token boundary changes no token (text, kind), for ANY classifier. *)
Theorem C15_whitespace_insensitive_tokens : forall cl l1 w l2 s,
  run cl init 0 l1 = inl s -> qc s = [] -> take s = 0%nat -> is_ws cl w = true -> boundary cl s (hd_error l2) ->
  er_out (tokenize cl (l1 ++ w :: l2)) = er_out (tokenize cl (l1 ++ l2)).
Proof. exact ws_insensitive. Qed.
(* ... and no parsed formula, for every parser configuration *)
Theorem C15_whitespace_insensitive_parse : forall cl fixed ic f av bad pn pv l1 w l2 s ts ts',
  run cl init 0 l1 = inl s -> qc s = [] -> take s = 0%nat -> is_ws cl w = true -> boundary cl s (hd_error l2) ->
  tokenize cl (l1 ++ w :: l2) = inl ts -> tokenize cl (l1 ++ l2) = inl ts' ->
  get_terms fixed ic f av bad pn pv cl (l1 ++ w :: l2) = get_terms fixed ic f av bad pn pv cl (l1 ++ l2).
Proof. exact ws_insensitive_parsed. Qed.
Theorem C15_whitespace_insensitive_errors : forall cl l1 w l2 s e,
  run cl init 0 l1 = inl s -> qc s = [] -> take s = 0%nat -> is_ws cl w = true -> boundary cl s (hd_error l2) ->
  (tokenize cl (l1 ++ w :: l2) = inr e <-> tokenize cl (l1 ++ l2) = inr e).
Proof. exact ws_insensitive_errors. Qed.
(* the boundary condition holds at every junction around operators and grouping brackets: *)
Theorem C15_boundary_after_operator : forall cl s n, kind_is (cur s) KOperator = true -> boundary cl s n.
Proof. exact boundary_operator. Qed.
Theorem C15_boundary_no_pending_token : forall cl s n, truthy (cur s) = false -> boundary cl s n.
Proof. exact boundary_falsy. Qed.
Theorem C15_boundary_before_operator : forall cl s c, qc s = [] -> take s = 0%nat -> is_opchar cl c = true -> boundary cl s (Some c).
Proof. exact boundary_opchar. Qed.
Theorem C15_boundary_at_end : forall cl s, qc s = [] -> boundary cl s None.
Proof. exact boundary_end. Qed.

(* Backtick-quoted names are taken verbatim: one NAME token with exactly the quoted characters (any operator characters,
   quotes, brackets, whitespace, any code point except backtick and backslash), spanning the quoted region. *)
Theorem C15_backtick_verbatim : forall cl w s i,
  qc s = [] -> take s = 0%nat -> w <> [] -> forallb plain_in_backticks w = true ->
  run cl s i (cBT :: w ++ [cBT]) =
  inl {| qc := []; take := 0; cur := fresh; out := name_tok w i (i + length w)%nat :: out (yield_cur s) |}.
Proof. exact backtick_verbatim. Qed.
Theorem C15_backtick_name_alone : forall cl w, w <> [] -> forallb plain_in_backticks w = true ->
  tokenize cl (cBT :: w ++ [cBT]) = inl [name_tok w 0 (length w)].
Proof. exact backtick_name_alone. Qed.

(* Quoted regions of EVERY kind (back-quoted names, brace-quoted and call-style Python fragments, %operators%, string literals inside them) are
   taken verbatim: while a quote context is open a step either appends exactly the character read, or that character is the delimiter closing
   the outermost name / brace / %-region and the token collected so far is emitted unchanged; so over any stretch during which the context
   does not close down to the top level the token text grows by exactly that stretch, whatever operator characters, quotes or brackets it holds *)
Theorem C15_quoted_step_verbatim : forall cl s i c s', qc s <> [] -> step cl s i c = inl s' ->
  appended s s' c \/ closed_outermost s s' c \/ closed_inner_empty s s' c.
Proof. exact quoted_step_verbatim. Qed.
Theorem C15_quoted_run_verbatim : forall cl w s i s', truthy (cur s) = true -> qc s <> [] -> inside cl s i w = true ->
  run cl s i w = inl s' -> ttext (cur s') = ttext (cur s) ++ w /\ out s' = out s.
Proof. exact quoted_run_verbatim. Qed.
(* non-vacuity: after "f(" the stretch  a+"(}",`~|`[1)  is inside the call's context throughout *)
Example C15_quoted_run_example :
  exists s, run (classify_with []) init 0 [102; 40] = inl s /\ truthy (cur s) = true /\ qc s <> [] /\
            inside (classify_with []) s 2 [97; 43; 34; 40; 125; 34; 44; 96; 126; 124; 96; 91; 49] = true.
Proof. eexists. split; [vm_compute; reflexivity|]. split; [reflexivity|]. split; [discriminate | vm_compute; reflexivity]. Qed.

(* Recorded spans are well-formed, inside the string, ordered and non-overlapping, for EVERY input the tokenizer accepts.  (Before the repair of
   /repo that resets the current token after an empty top-level quoted region this needed a side condition on the input, and "%%(+b)" refuted
   the full statement: the span of '+' swallowed the bracket.) *)
Theorem C15_spans_ordered_disjoint : forall cl l ts, tokenize cl l = inl ts -> spans_ordered ts (length l).
Proof. exact tokenize_spans_ordered. Qed.
Theorem C15_spans_ordered_readable : forall ts n, spans_ordered ts n -> ordered_b None ts n = true.
Proof. exact chain_ordered_b. Qed.
(* the former counterexample: "%%(+b)" now has ordered spans *)
Example C15_spans_empty_quote_now_ordered :
  exists ts, tokenize (classify_with []) [37; 37; 40; 43; 98; 41] = inl ts /\ ordered_b None ts 6 = true.
Proof. eexists. split; vm_compute; reflexivity. Qed.
Example C15_example_spans :
  exists ts, tokenize (classify_with []) [121; 32; 126; 96; 97; 32; 43; 96; 43; 102; 40; 120; 41] = inl ts /\ ordered_b None ts 13 = true.
Proof. eexists. split; vm_compute; reflexivity. Qed.

(* the classifier the implementation uses for ASCII is the generated table, and it meets the side conditions *)
Theorem C15_ascii_table_side_conditions :
  forallb (fun c => negb (is_word (ascii_cls c)) && negb (is_space (ascii_cls c))) special_chars = true.
Proof. exact ascii_specials_not_word_or_space. Qed.
Theorem C15_tokenizer_literals_are_the_code's :
  tokenize_literals =
  [[cBS]; [cRB; cBT; cPCT]; [cDQ; cPCT; cSQ; cRP; cRS; cBT; cRB]; [cBT; cLP; cLS; cDQ; cSQ]; [cRB; cRP; cRS]; [cLB]; [cRB];
   [cPCT]; [cLB]; [cBT]; [cLP; cLS]; [cLP]; [cRP; cRS]; [cDQ; cSQ]].
Proof. exact tokenizer_literals_match. Qed.

Print Assumptions C15_whitespace_insensitive_tokens.
Print Assumptions C15_whitespace_insensitive_parse.
Print Assumptions C15_whitespace_insensitive_errors.
Print Assumptions C15_boundary_after_operator.
Print Assumptions C15_boundary_no_pending_token.
Print Assumptions C15_boundary_before_operator.
Print Assumptions C15_boundary_at_end.
Print Assumptions C15_backtick_verbatim.
Print Assumptions C15_backtick_name_alone.
Print Assumptions C15_spans_ordered_disjoint.
Print Assumptions C15_spans_ordered_readable.
Print Assumptions C15_spans_empty_quote_now_ordered.
Print Assumptions C15_quoted_step_verbatim.
Print Assumptions C15_quoted_run_verbatim.
Print Assumptions C15_quoted_run_example.
Print Assumptions C15_example_spans.
Print Assumptions C15_ascii_table_side_conditions.
Print Assumptions C15_tokenizer_literals_are_the_code's.
