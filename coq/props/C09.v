(* ===== C09 : reusing a spec on incompatible data fails loudly and never reshapes columns ===== *)
From Coq Require Import List NArith ZArith QArith Qcanon Bool Arith.
Import ListNotations.
Require Import Mat Mat2 ReplayLaws WarnLaws.
Open Scope nat_scope.

(* a factor whose kind (categorical / numerical) differs from the recorded kind: an encoding error, never a matrix *)
Theorem C09_kind_change_is_error : forall sp d n caller evs,
  eval_pool d (pool_of (sp_terms sp)) [] = inl evs -> forallb (kind_ok (sp_enc sp)) evs = false ->
  replay sp d n caller = inr RKind.
Proof. exact kind_change_is_error. Qed.
(* and that error is raised only for a kind change *)
Theorem C09_kind_error_only_for_kind_change : forall sp d n caller,
  replay sp d n caller = inr RKind ->
  exists evs, eval_pool d (pool_of (sp_terms sp)) [] = inl evs /\ exists p, In p evs /\ kind_ok (sp_enc sp) p = false.
Proof. exact kind_error_only_for_kind_change. Qed.
(* levels absent from the new data still produce their (all-zero) columns *)
Theorem C09_absent_levels_zero_columns : forall (v : list (option str)) lv,
  (forall s, In (Some s) v -> leqb s lv = false) -> indicator v lv = map (fun _ => Some (Q2Qc 0)) v.
Proof. exact absent_level_zero_column. Qed.
(* levels unseen at fit time never add, remove or rename columns: names are the recorded ones ... *)
Theorem C09_unseen_levels_no_reshape : forall sp d n caller names cols drop,
  replay sp d n caller = inl (names, cols, drop) -> names = spec_names sp /\ length cols = length names.
Proof. exact replay_names_fixed. Qed.
(* ... and a row holding an unseen level is zero in every column of that factor *)
Theorem C09_unseen_level_rows_zero : forall (v : list (option str)) i w lvs,
  nth_error v i = Some (Some w) -> ~ In w lvs -> forall lv, In lv lvs -> nth_error (indicator v lv) i = Some (Some (Q2Qc 0)).
Proof. exact unseen_level_zero_row. Qed.

(* non-vacuity: a column that was categorical at fit time arrives numeric *)
Example C09_example :
  let sp := {| sp_terms := [[{| fx := [65]%N; fk := FLookup |}]];
               sp_struct := [([{| st_f := [([65]%N, false)]; st_scale := Q2Qc 1 |}], [[65;91;120;93]%N])];
               sp_enc := [([65]%N, KCat [[120]%N])];
               sp_cfg := {| full_rank := false; na_action := NaDrop; caller_drop := [] |} |} in
  replay sp [([65]%N, CNum [Some (Q2Qc 1)])] 1 [] = inr RKind.
Proof. vm_compute. reflexivity. Qed.

(* unseen levels are announced: the data-mismatch warning is issued exactly when some value of a factor that was categorical at fit time is not
   among that factor's recorded levels (and, by C09_unseen_levels_no_reshape, the columns stay as recorded either way) *)
Theorem C09_unseen_levels_are_announced : forall sp d, warns sp d = true <->
  exists e lvs v dl s, In (e, KCat lvs) (sp_enc sp) /\ lookup d e = Some (CCat v dl) /\ In (Some s) v /\ ~ In s lvs.
Proof. exact warns_iff. Qed.

(* non-vacuity for the unseen-level half: the spec recorded A with the single level x; new data holds x and the unseen z -- the column stays
   A[x], the row of z is zero, the warning is issued; without z there is no warning *)
Example C09_unseen_example :
  let sp := {| sp_terms := [[{| fx := [65]%N; fk := FLookup |}]];
               sp_struct := [([{| st_f := [([65]%N, false)]; st_scale := Q2Qc 1 |}], [[65;91;120;93]%N])];
               sp_enc := [([65]%N, KCat [[120]%N])];
               sp_cfg := {| full_rank := false; na_action := NaDrop; caller_drop := [] |} |} in
  let d := [([65]%N, CCat [Some [120]%N; Some [122]%N] None)] in
  replay sp d 2 [] = inl ([[65;91;120;93]%N], [[Some (Q2Qc 1); Some (Q2Qc 0)]], []) /\ warns sp d = true /\
  warns sp [([65]%N, CCat [Some [120]%N] None)] = false.
Proof. vm_compute. auto. Qed.

Print Assumptions C09_unseen_example.
Print Assumptions C09_unseen_levels_are_announced.
Print Assumptions C09_kind_change_is_error.
Print Assumptions C09_kind_error_only_for_kind_change.
Print Assumptions C09_absent_levels_zero_columns.
Print Assumptions C09_unseen_levels_no_reshape.
Print Assumptions C09_unseen_level_rows_zero.
Print Assumptions C09_example.
