(* ===== C10 : model-spec metadata indexes the generated columns truthfully ===== *)
From Coq Require Import List NArith ZArith QArith Qcanon Bool Arith Permutation.
Import ListNotations.
Require Import StrOrder Struct SpecMeta SpecMetaLaws SubsetLaws Mat Mat2 ReplayLaws MatSep SubsetReplay.
Open Scope nat_scope.

(* the reported column names are the actual column labels of the matrix the model builds *)
Theorem C10_names_are_labels : forall evs drop n fr terms,
  NoDup (concat (o_term_cols (assemble evs drop n fr terms))) ->
  o_names (assemble evs drop n fr terms) = concat (o_term_cols (assemble evs drop n fr terms)).
Proof. exact names_are_labels. Qed.
Theorem C10_names_from_structure : forall evs drop n fr terms,
  o_names (assemble evs drop n fr terms) = fold_left okeys (o_term_cols (assemble evs drop n fr terms)) [].
Proof. exact names_are_structure_columns. Qed.
(* per-term index ranges: contiguous, disjoint, in term order, covering all columns *)
Theorem C10_term_ranges_partition : forall rows,
  concat (ranges (map (fun r => length (r_cols r)) rows) 0) = seq 0 (length (column_names rows)).
Proof. exact term_ranges_partition. Qed.
Theorem C10_each_range_contiguous : forall lens s i n, nth_error lens i = Some n ->
  nth_error (ranges lens s) i = Some (seq (s + fold_right Nat.add 0 (firstn i lens)) n).
Proof. exact ranges_each. Qed.
(* looking a term up (by object, or by printed form with the factors in ANY order) selects exactly its own range *)
Theorem C10_lookup_by_term : forall rows i r,
  NoDup (map (fun r => tkey (r_factors r)) rows) -> nth_error rows i = Some r ->
  lookup_term rows (r_factors r) = nth_error (ranges (map (fun r => length (r_cols r)) rows) 0) i.
Proof. exact lookup_term_exact. Qed.
Theorem C10_lookup_any_factor_order : forall rows fs fs', Permutation fs fs' -> lookup_term rows fs = lookup_term rows fs'.
Proof. exact lookup_any_factor_order. Qed.
(* a column name selects a position that carries that name *)
Theorem C10_lookup_by_column_name : forall rows name j,
  column_index rows name = Some j -> nth_error (column_names rows) j = Some name.
Proof. exact column_index_truthful. Qed.

(* term_slices / get_slice by term: the slice of a term is exactly its contiguous range [start, start + width) *)
Theorem C10_term_slice_exact : forall rows i r c n, NoDup (map (fun r => tkey (r_factors r)) rows) -> nth_error rows i = Some r ->
  tkey (r_factors r) = tkey c -> length (r_cols r) = S n ->
  option_map slice_of (lookup_term rows c) = Some (start_of rows i, start_of rows i + S n).
Proof. exact term_slice_exact. Qed.
(* variable-to-column indices: exactly the positions of the columns of the terms that use the variable *)
Theorem C10_variable_indices_exact : forall rows v j, NoDup (map (fun r => tkey (r_factors r)) rows) ->
  (In j (variable_indices rows v) <->
   exists i r, nth_error rows i = Some r /\ uses v r = true /\ start_of rows i <= j < start_of rows i + length (r_cols r)).
Proof. exact variable_indices_exact. Qed.
(* a spec subset to chosen terms: defined exactly when every chosen term is a term of the spec; its rows are those of the chosen terms in
   the order chosen; and its column names are exactly the parent's names at the parent's positions of those terms (get_term_indices) *)
Theorem C10_subset_defined_iff : forall rows chosen, NoDup (map (fun r => tkey (r_factors r)) rows) ->
  ((exists sub, subset rows chosen = Some sub) <-> Forall (fun c => In (tkey c) (map (fun r => tkey (r_factors r)) rows)) chosen).
Proof. exact subset_defined_iff. Qed.
Theorem C10_subset_keeps_chosen_order : forall rows chosen sub, NoDup (map (fun r => tkey (r_factors r)) rows) ->
  subset rows chosen = Some sub -> map (fun r => tkey (r_factors r)) sub = map tkey chosen.
Proof. exact subset_keeps_chosen_order. Qed.
Theorem C10_subset_is_parent_columns : forall rows, NoDup (map (fun r => tkey (r_factors r)) rows) -> forall chosen sub,
  subset rows chosen = Some sub ->
  exists ix, get_term_indices rows chosen = Some ix /\ map (nth_error (column_names rows)) ix = map Some (column_names sub).
Proof. exact subset_is_parent_columns. Qed.

(* ... and at the level of the matrix: replaying a recorded structure treats every row on its own *)
Theorem C10_replay_is_term_by_term : forall sp evs drop nk rows acc out,
  replay_terms sp evs drop nk rows acc = inl out <->
  exists per, Forall2 (fun row cols => term_replay (sp_enc sp) evs drop nk row = inl cols) rows per /\ out = fold_left dict_update per acc.
Proof. exact replay_terms_per_term. Qed.
(* so a spec holding ANY selection of the parent's rows in ANY order (with the parent's recorded encoder state and configuration), replayed
   on the same data, yields for every selected term exactly the columns the parent yields for it -- provided the same rows are kept *)
Theorem C10_subset_regenerates_parent_columns : forall sp sub d n caller names cols drop,
  sp_enc sub = sp_enc sp -> sp_cfg sub = sp_cfg sp -> incl (sp_struct sub) (sp_struct sp) ->
  consistent (concat (sp_terms sp)) -> incl (concat (sp_terms sub)) (concat (sp_terms sp)) ->
  (forall row st sf, In row (sp_struct sub) -> In st (fst row) -> In sf (st_f st) -> exists g, In g (concat (sp_terms sub)) /\ fx g = sf_expr sf) ->
  replay sp d n caller = inl (names, cols, drop) ->
  forall evs evs', eval_pool d (pool_of (sp_terms sp)) [] = inl evs -> eval_pool d (pool_of (sp_terms sub)) [] = inl evs' ->
  drop_set {| full_rank := full_rank (sp_cfg sp); na_action := na_action (sp_cfg sp); caller_drop := caller |} evs' = drop ->
  (na_action (sp_cfg sp) = NaRaise -> all_nulls evs' = []) ->
  exists per, Forall2 (fun row c => term_replay (sp_enc sp) evs drop (n - length drop) row = inl c) (sp_struct sub) per /\
              replay sub d n caller = inl (map fst (fold_left dict_update per []), map snd (fold_left dict_update per []), drop).
Proof. exact subset_replay. Qed.

(* the hypotheses are met by a concrete parent 'a + A' (A recorded with levels x, y) and its subset to the second term, in reverse order *)
Example C10_subset_replay_example :
  let fa := {| fx := [97]%N; fk := FLookup |} in let fA := {| fx := [65]%N; fk := FLookup |} in
  let ra := ([{| st_f := [([97]%N, false)]; st_scale := Q2Qc 1 |}], [[97]%N]) in
  let rA := ([{| st_f := [([65]%N, false)]; st_scale := Q2Qc 1 |}], [[65;91;120;93]%N; [65;91;121;93]%N]) in
  let enc := [([97]%N, KNum); ([65]%N, KCat [[120]%N; [121]%N])] in
  let cf := {| full_rank := false; na_action := NaDrop; caller_drop := [] |} in
  let sp := {| sp_terms := [[fa]; [fA]]; sp_struct := [ra; rA]; sp_enc := enc; sp_cfg := cf |} in
  let sub := {| sp_terms := [[fA]; [fa]]; sp_struct := [rA; ra]; sp_enc := enc; sp_cfg := cf |} in
  let d := [([97]%N, CNum [Some (Q2Qc 2); Some (Q2Qc 3)]); ([65]%N, CCat [Some [121]%N; Some [120]%N] None)] in
  replay sp d 2 [] = inl ([[97]%N; [65;91;120;93]%N; [65;91;121;93]%N],
                          [[Some (Q2Qc 2); Some (Q2Qc 3)]; [Some (Q2Qc 0); Some (Q2Qc 1)]; [Some (Q2Qc 1); Some (Q2Qc 0)]], []) /\
  replay sub d 2 [] = inl ([[65;91;120;93]%N; [65;91;121;93]%N; [97]%N],
                           [[Some (Q2Qc 0); Some (Q2Qc 1)]; [Some (Q2Qc 1); Some (Q2Qc 0)]; [Some (Q2Qc 2); Some (Q2Qc 3)]], []).
Proof. vm_compute. split; reflexivity. Qed.

Example C10_subset_example :
  let rows := [ {| r_factors := [[49]%N]; r_cols := [[73]%N]; r_vars := [] |};
                {| r_factors := [[66]%N; [65]%N]; r_cols := [[120]%N; [121]%N]; r_vars := [[66]%N; [65]%N] |};
                {| r_factors := [[97]%N]; r_cols := [[97]%N]; r_vars := [[97]%N] |} ] in
  NoDup (map (fun r => tkey (r_factors r)) rows) /\
  option_map column_names (subset rows [[[97]%N]; [[65]%N; [66]%N]]) = Some [[97]%N; [120]%N; [121]%N] /\
  get_term_indices rows [[[97]%N]; [[65]%N; [66]%N]] = Some [3; 1; 2] /\ subset rows [[[98]%N]] = None.
Proof. split; [repeat constructor; cbn; intuition discriminate | vm_compute; auto]. Qed.

Example C10_example :
  let rows := [ {| r_factors := [[49]%N]; r_cols := [[73]%N]; r_vars := [] |};
                {| r_factors := [[66]%N; [65]%N]; r_cols := [[120]%N; [121]%N]; r_vars := [[66]%N; [65]%N] |};
                {| r_factors := [[97]%N]; r_cols := [[97]%N]; r_vars := [[97]%N] |} ] in
  lookup_term rows [[65]%N; [66]%N] = Some [1; 2] /\ lookup_term rows [[66]%N; [65]%N] = Some [1; 2] /\
  variable_indices rows [65]%N = [1; 2] /\ column_index rows [97]%N = Some 3.
Proof. vm_compute. auto. Qed.

Print Assumptions C10_names_are_labels.
Print Assumptions C10_names_from_structure.
Print Assumptions C10_term_ranges_partition.
Print Assumptions C10_each_range_contiguous.
Print Assumptions C10_lookup_by_term.
Print Assumptions C10_lookup_any_factor_order.
Print Assumptions C10_lookup_by_column_name.
Print Assumptions C10_term_slice_exact.
Print Assumptions C10_variable_indices_exact.
Print Assumptions C10_subset_defined_iff.
Print Assumptions C10_subset_keeps_chosen_order.
Print Assumptions C10_subset_is_parent_columns.
Print Assumptions C10_replay_is_term_by_term.
Print Assumptions C10_subset_regenerates_parent_columns.
Print Assumptions C10_subset_replay_example.
Print Assumptions C10_subset_example.
Print Assumptions C10_example.
