(* ===== C10 : model-spec metadata indexes the generated columns truthfully ===== *)
From Coq Require Import List NArith Bool Arith Permutation.
Import ListNotations.
Require Import StrOrder Struct SpecMeta SpecMetaLaws Mat ReplayLaws.
Open Scope nat_scope.

(* the reported column names are the actual column labels of the matrix the model builds *)
Theorem C10_names_are_labels : forall evs drop n fr terms,
  NoDup (concat (o_term_cols (assemble evs drop n fr terms))) ->
  o_names (assemble evs drop n fr terms) = concat (o_term_cols (assemble evs drop n fr terms)).
Proof. exact names_are_labels. Qed.
Theorem C10_names_from_structure : forall evs drop n fr terms,
  o_names (assemble evs drop n fr terms) = fold_left okeys (o_term_cols (assemble evs drop n fr terms)) [].
Proof. exact names_are_structure_columns. Qed.
(* per-term index ranges: contiguous, disjoint, in term order, covering all columns *)
Theorem C10_term_ranges_partition : forall rows,
  concat (ranges (map (fun r => length (r_cols r)) rows) 0) = seq 0 (length (column_names rows)).
Proof. exact term_ranges_partition. Qed.
Theorem C10_each_range_contiguous : forall lens s i n, nth_error lens i = Some n ->
  nth_error (ranges lens s) i = Some (seq (s + fold_right Nat.add 0 (firstn i lens)) n).
Proof. exact ranges_each. Qed.
(* looking a term up (by object, or by printed form with the factors in ANY order) selects exactly its own range *)
Theorem C10_lookup_by_term : forall rows i r,
  NoDup (map (fun r => tkey (r_factors r)) rows) -> nth_error rows i = Some r ->
  lookup_term rows (r_factors r) = nth_error (ranges (map (fun r => length (r_cols r)) rows) 0) i.
Proof. exact lookup_term_exact. Qed.
Theorem C10_lookup_any_factor_order : forall rows fs fs', Permutation fs fs' -> lookup_term rows fs = lookup_term rows fs'.
Proof. exact lookup_any_factor_order. Qed.
(* a column name selects a position that carries that name *)
Theorem C10_lookup_by_column_name : forall rows name j,
  column_index rows name = Some j -> nth_error (column_names rows) j = Some name.
Proof. exact column_index_truthful. Qed.

Example C10_example :
  let rows := [ {| r_factors := [[49]%N]; r_cols := [[73]%N]; r_vars := [] |};
                {| r_factors := [[66]%N; [65]%N]; r_cols := [[120]%N; [121]%N]; r_vars := [[66]%N; [65]%N] |};
                {| r_factors := [[97]%N]; r_cols := [[97]%N]; r_vars := [[97]%N] |} ] in
  lookup_term rows [[65]%N; [66]%N] = Some [1; 2] /\ lookup_term rows [[66]%N; [65]%N] = Some [1; 2] /\
  variable_indices rows [65]%N = [1; 2] /\ column_index rows [97]%N = Some 3.
Proof. vm_compute. auto. Qed.

Print Assumptions C10_names_are_labels.
Print Assumptions C10_names_from_structure.
Print Assumptions C10_term_ranges_partition.
Print Assumptions C10_each_range_contiguous.
Print Assumptions C10_lookup_by_term.
Print Assumptions C10_lookup_any_factor_order.
Print Assumptions C10_lookup_by_column_name.
Print Assumptions C10_example.
